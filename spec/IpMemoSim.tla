------------------------------ MODULE IpMemoSim ------------------------------
(***************************************************************************)
(* Behaviour generator for the M-module IpMemo: the same actions plus a    *)
(* history variable carrying every request with M's predicted answer.      *)
(* Every behaviour of length Depth is appended as one JSON line to         *)
(* OUT_FILE (simulation mode: random behaviours; model-checking mode: all  *)
(* of them).  The harness replays each line on the real classes.           *)
(***************************************************************************)
EXTENDS IpMemo, Json, IOUtils

CONSTANT Depth
VARIABLE hist
svars == <<vars, hist>>

SimInit == Init /\ hist = << >>
SimNext == Len(hist) < Depth /\ Next /\ hist' = Append(hist, last')
SimSpec == SimInit /\ [][SimNext]_svars

Rec == [w |-> w, ps |-> ps, pins |-> pins, nets |-> nets,
        salter |-> {<<p, salter[p]>> : p \in DOMAIN salter},
        hist |-> hist]
Emit == Len(hist) = Depth =>
          Serialize(ToJson(Rec) \o "\n", IOEnv.OUT_FILE,
                    [format |-> "TXT", charset |-> "UTF-8",
                     openOptions |-> <<"WRITE", "CREATE", "APPEND">>]).exitValue = 0
=============================================================================
