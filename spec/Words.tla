-------------------------------- MODULE Words --------------------------------
(***************************************************************************)
(* Sensitive words and reserved words (C10).  Text is a sequence of code   *)
(* points; Lower folds ASCII case.                                         *)
(*                                                                         *)
(* R:  a TOKEN is a maximal run of non-blank characters.  A token is       *)
(*     EXEMPT when it is a reserved word (compared without case; whether a *)
(*     token that equals a reserved word only up to case must be kept is   *)
(*     deliberately left open).  Every other token is rewritten by a       *)
(*     left-to-right scan: wherever some listed word matches (without      *)
(*     case) one of the matching words is replaced by the pseudonym of the *)
(*     MATCHED TEXT; which of several matching words is taken is free      *)
(*     (the code's choice depends on the interpreter's hash seed).         *)
(*     Rewrites(t, pm) is the set of all results; pm : matched text ->     *)
(*     pseudonym is a function fixed per salt.                             *)
(* Theorem (NoSurvivorThm, checked by TLC on a small universe): no listed  *)
(* word occurs in any member of Rewrites - provided a pseudonym cannot     *)
(* spell a word, which is the side condition of the property.              *)
(*                                                                         *)
(* M:  the code tries the words in one fixed ORDER per anonymizer          *)
(*     (order of a Python set: the hash seed).  RewriteM(t, order, pm) is  *)
(*     deterministic; TLC checks RewriteM \in Rewrites for every order and *)
(*     exhibits two orders with different results when words overlap (the  *)
(*     C13 finding about hash seeds).                                      *)
(***************************************************************************)
EXTENDS Naturals, Sequences, FiniteSets, TLC

\* simple case folding: ASCII, the Latin-1 letters (192..222 except the multiplication sign) and the
\* even/odd pairs of Latin Extended-A that occur in the generated vocabulary
Lower(c) == IF c \in 65..90 THEN c + 32
            ELSE IF c \in 192..222 /\ c # 215 THEN c + 32
            ELSE IF c \in {321, 377, 379, 381, 352} THEN c + 1
            ELSE c
LowerS(s) == [i \in 1..Len(s) |-> Lower(s[i])]
IsBlank(c) == c \in {32, 9, 10, 11, 12, 13}

MatchesAt(t, i, w) == /\ i + Len(w) - 1 <= Len(t)
                      /\ \A k \in 1..Len(w) : Lower(t[i + k - 1]) = Lower(w[k])
Occurs(t, w) == \E i \in 1..Len(t) : MatchesAt(t, i, w)

\* ---- R --------------------------------------------------------------------
RECURSIVE RewritesFrom(_, _, _, _)
RewritesFrom(t, i, words, pm) ==
  IF i > Len(t) THEN {<< >>}
  ELSE LET M == {w \in words : MatchesAt(t, i, w)} IN
       IF M = {} THEN {<<t[i]>> \o r : r \in RewritesFrom(t, i + 1, words, pm)}
       ELSE UNION {{pm[SubSeq(t, i, i + Len(w) - 1)] \o r : r \in RewritesFrom(t, i + Len(w), words, pm)} : w \in M}
Rewrites(t, words, pm) == RewritesFrom(t, 1, words, pm)
\* the matched texts a token can give rise to (so that pm is asked only where it is defined)
RECURSIVE MatchedTexts(_, _, _)
MatchedTexts(t, i, words) ==
  IF i > Len(t) THEN {}
  ELSE {SubSeq(t, i, i + Len(w) - 1) : w \in {x \in words : MatchesAt(t, i, x)}} \cup MatchedTexts(t, i + 1, words)

Exempt(t, reserved) == \E r \in reserved : LowerS(t) = LowerS(r)
ExactReserved(t, reserved) == t \in reserved

\* tokens of a line: sequence of <<start, end>>
TokStarts(s) == {i \in 1..Len(s) : ~IsBlank(s[i]) /\ (i = 1 \/ IsBlank(s[i - 1]))}
TokEnd(s, i) == CHOOSE j \in i..Len(s) : (j = Len(s) \/ IsBlank(s[j + 1])) /\ \A k \in i..j : ~IsBlank(s[k])
RECURSIVE SortNat(_)
SortNat(S) == IF S = {} THEN << >> ELSE LET m == CHOOSE x \in S : \A y \in S : x <= y IN <<m>> \o SortNat(S \ {m})
Tokens(s) == LET st == SortNat(TokStarts(s)) IN [k \in 1..Len(st) |-> SubSeq(s, st[k], TokEnd(s, st[k]))]
Lead(s)  == IF TokStarts(s) = {} THEN s ELSE SubSeq(s, 1, (CHOOSE x \in TokStarts(s) : \A y \in TokStarts(s) : x <= y) - 1)

\* no listed word survives outside exempt tokens (the property verbatim)
NoSurvivor(out, words, reserved) ==
  \A k \in 1..Len(Tokens(out)) : LET t == Tokens(out)[k] IN
     Exempt(t, reserved) \/ \A w \in words : ~Occurs(t, w)

\* ---- M --------------------------------------------------------------------
RECURSIVE RewriteM(_, _, _, _)
RewriteM(t, i, order, pm) ==      \* order: sequence of words, first match in this order wins
  IF i > Len(t) THEN << >>
  ELSE LET M == {k \in 1..Len(order) : MatchesAt(t, i, order[k])} IN
       IF M = {} THEN <<t[i]>> \o RewriteM(t, i + 1, order, pm)
       ELSE LET w == order[CHOOSE k \in M : \A j \in M : k <= j] IN
            pm[SubSeq(t, i, i + Len(w) - 1)] \o RewriteM(t, i + Len(w), order, pm)

\* ---- small universe for model checking -------------------------------------
\* letters 1..3 ('a','b','c' as 97..99 and upper case 65..67); pseudonym of a text = <<0>> \o text marked (no letters)
CONSTANTS MaxTok
Letters == {97, 98, 99, 65}
WordPool == { <<97, 98>>, <<97, 98, 99>>, <<98>>, <<99, 97>>, <<98, 99>> }
PmSmall(text) == <<0>> \o [i \in 1..Len(text) |-> text[i] + 200] \o <<0>>     \* opaque, injective, contains no letter
VARIABLES words, order, tok
wvars == <<words, order, tok>>
Perms(S) == {p \in [1..Cardinality(S) -> S] : \A a, b \in DOMAIN p : a # b => p[a] # p[b]}
TokUniverse == UNION {[1..n -> Letters] : n \in 1..MaxTok}
PmFor(t, ws) == [m \in MatchedTexts(t, 1, ws) |-> PmSmall(m)]
Init == /\ words \in {W \in SUBSET WordPool : Cardinality(W) \in 1..3}
        /\ order \in Perms(words)
        /\ tok \in TokUniverse
Next == UNCHANGED wvars
Spec == Init /\ [][Next]_wvars
MRefinesR     == RewriteM(tok, 1, order, PmFor(tok, words)) \in Rewrites(tok, words, PmFor(tok, words))
NoSurvivorThm == \A r \in Rewrites(tok, words, PmFor(tok, words)) : \A w \in words : ~Occurs(r, w)
\* NOT an invariant: the result depends on the order (hash seed) when words overlap
OrderIndependent == \A o2 \in Perms(words) : RewriteM(tok, 1, o2, PmFor(tok, words)) = RewriteM(tok, 1, order, PmFor(tok, words))
=============================================================================
