CONSTANTS Tier = "quick"  Family = "all"  Depth = 0
SPECIFICATION Spec
INVARIANT GenTypeOK
INVARIANT Emit
CHECK_DEADLOCK FALSE
