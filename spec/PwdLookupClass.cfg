\* expectation: TLC REFUTES ClassKept on the implementation model (finding D14)
CONSTANTS MaxHist = 2
SPECIFICATION Spec
INVARIANT ClassKept
CHECK_DEADLOCK FALSE
