------------------------------- MODULE AddrGen -------------------------------
(***************************************************************************)
(* Case generator for address substitution in text (C06 / C05 text part).  *)
(* TLC enumerates the cases - so the size of the explored space is TLC's   *)
(* count of distinct states - checks spec-level sanity of AddrText on each *)
(* of them, and appends each as one JSON line to OUT_FILE; the harness     *)
(* runs every line through the real code and TextTrace judges the result.  *)
(*                                                                         *)
(* Mode "strings":  every string of length <= MaxLen over Alphabet.        *)
(* Mode "v4":       dotted candidates of 3..5 parts over a part vocabulary *)
(*                  (all-"1" except <= 2 special positions) in all pairs   *)
(*                  of left/right contexts from Ctx4 (contexts varied one  *)
(*                  side at a time, plus a diagonal).                      *)
(* Mode "v6":       colon-hex candidates: a groups, optional "::", b       *)
(*                  groups, optional dotted tail; all groups "1" except    *)
(*                  one special position; contexts from Ctx6.              *)
(***************************************************************************)
EXTENDS AddrText, Json, IOUtils

CONSTANTS Mode, MaxLen, Wide
VARIABLES s, meta
gvars == <<s, meta>>

\* '0' '1' '2' '5' '6' 'a' 'f' 'g' 'F' '.' ':' '/' ' ' '-'
Alphabet == IF MaxLen >= 5 THEN {48, 49, 50, 53, 97, 103, 70, 46, 58, 47, 32}
            ELSE {48, 49, 50, 53, 54, 97, 102, 103, 70, 46, 58, 47, 32, 45}

RECURSIVE Join(_, _)
Join(parts, sep) == IF Len(parts) = 0 THEN << >>
                    ELSE IF Len(parts) = 1 THEN parts[1]
                    ELSE parts[1] \o <<sep>> \o Join(Tail(parts), sep)

\* ---- part / group / context vocabularies (as code-point sequences) --------
P4 == { <<48>>, <<49>>, <<50, 53>>, <<50, 53, 53>>, <<50, 53, 54>>, <<50, 54>>, <<48, 53>>, <<48, 50, 53, 53>>,
        <<48, 50, 53, 54>>, <<51, 48, 48>>, <<49, 97>>, << >>, <<48, 48, 48, 49>>, <<49, 57, 57>>, <<50, 52, 57>> }
One == <<49>>
G6 == { <<48>>, <<49>>, <<97, 98>>, <<70, 70, 70, 70>>, <<49, 50, 51, 52, 53>>, <<103>>, <<48, 48, 49>>, <<102, 101, 56, 48>> }
Tails == { << >>, <<49, 46, 50, 46, 51, 46, 52>>, <<50, 53, 54, 46, 49, 46, 49, 46, 49>>, <<49, 46, 50, 46, 51>> }
\* line boundary, space, '/24', ':', '.', letters, brackets, quotes, '-', '_', non-ASCII, ',', ';', '=', '%x'
Ctx == { << >>, <<32>>, <<47, 50, 52>>, <<58>>, <<46>>, <<120>>, <<97>>, <<91>>, <<93>>, <<34>>, <<39>>, <<45>>, <<95>>,
         <<233>>, <<44>>, <<59>>, <<61>>, <<40>>, <<41>>, <<47>>, <<32, 49>>, <<49, 32>>, <<37, 120>> }
Few4 == {One, <<48>>, <<50, 53, 53>>, <<50, 53, 54>>, <<48, 53>>}
Space == <<32>>
\* contexts used around the candidates when the context itself is varied
CtxV == IF Wide THEN Ctx ELSE {<< >>, <<32>>, <<47, 50, 52>>, <<58>>, <<46>>, <<120>>, <<91>>, <<45>>, <<95>>, <<233>>, <<37, 120>>}

(***************************************************************************)
(* The cases are built step by step (left context, parts/groups, right     *)
(* context) so that TLC's breadth-first search does the enumeration; a     *)
(* case is complete when meta.st = "done".                                 *)
(*   v4: 3..5 dot-separated parts, at most two of them "special" (from P4  *)
(*       in the plain space/space context, from Few4 in varied contexts,   *)
(*       where the candidates have exactly 4 parts).                       *)
(*   v6: a groups [::] b groups [tail]; at most one special group (G6);    *)
(*       in varied contexts only the short forms without special group.    *)
(***************************************************************************)
\* mode "mask": the 64 mask / wildcard values of width 32 and all their one-bit perturbations
\* (emitted as bits; the harness renders them as dotted quads, with and without leading zeros)
Flip1(b, i) == [b EXCEPT ![i] = 1 - @]
MaskCases == MaskSet(32) \cup {Flip1(b, i) : b \in MaskSet(32), i \in 1..32}
Init ==
  IF Mode = "mask" THEN s = << >> /\ \E b \in MaskCases : meta = [st |-> "done", bits |-> b, mask |-> IsMaskBits(b)]
  ELSE IF Mode = "strings" THEN s = << >> /\ meta = [st |-> "done"]
  ELSE \E l \in CtxV : \E bg \in (IF Mode = "v6" THEN {One, <<65, 66>>, <<68, 66, 56>>} ELSE {One}) :
          s = l /\ meta = [st |-> "a", n |-> 0, sp |-> 0, plain |-> (l = Space), dc |-> FALSE, b |-> 0, base |-> bg]

Sep(c) == IF meta.n > 0 THEN <<c>> ELSE << >>

Next4 ==
  \/ /\ meta.st = "a" /\ meta.n < (IF meta.plain THEN 5 ELSE 4)
     /\ \E p \in (IF meta.sp >= 2 THEN {One} ELSE IF meta.plain THEN P4 ELSE Few4) :
          /\ s' = s \o Sep(Dot) \o p
          /\ meta' = [meta EXCEPT !.n = @ + 1, !.sp = @ + (IF p = One THEN 0 ELSE 1)]
  \/ /\ meta.st = "a" /\ meta.n >= (IF meta.plain THEN 3 ELSE 4)
     /\ \E r \in (IF meta.plain THEN {Space} ELSE CtxV) : s' = s \o r /\ meta' = [meta EXCEPT !.st = "done"]

Short6 == meta.plain \/ (meta.n + meta.b <= 1) \/ (meta.n = 8 /\ ~meta.dc)
Next6 ==
  \* left groups
  \/ /\ meta.st = "a" /\ meta.n < 8 /\ (meta.plain \/ meta.n < 1 \/ meta.n >= 2)
     /\ \E g \in (IF meta.sp >= 1 \/ ~meta.plain THEN {meta.base} ELSE G6 \cup {meta.base}) :
          /\ s' = s \o Sep(Colon) \o g
          /\ meta' = [meta EXCEPT !.n = @ + 1, !.sp = @ + (IF g = meta.base THEN 0 ELSE 1)]
  \* optional "::", then right groups
  \/ /\ meta.st = "a" /\ (meta.plain \/ meta.n <= 1)
     /\ s' = s \o <<Colon, Colon>> /\ meta' = [meta EXCEPT !.st = "b", !.dc = TRUE]
  \/ /\ meta.st = "b" /\ meta.n + meta.b < 9 /\ (meta.plain \/ meta.b < 1)
     /\ \E g \in (IF meta.sp >= 1 \/ ~meta.plain THEN {meta.base} ELSE G6 \cup {meta.base}) :
          /\ s' = s \o (IF meta.b > 0 THEN <<Colon>> ELSE << >>) \o g
          /\ meta' = [meta EXCEPT !.b = @ + 1, !.sp = @ + (IF g = meta.base THEN 0 ELSE 1)]
  \* optional dotted tail (needs a ':' before it), then the right context
  \/ /\ meta.st \in {"a", "b"} /\ (meta.n + meta.b > 0 \/ meta.dc) /\ Short6
     /\ \E tl \in (IF meta.plain THEN Tails ELSE {<< >>, <<49, 46, 50, 46, 51, 46, 52>>}) :
        \E r \in (IF meta.plain THEN {Space} ELSE CtxV) :
          /\ s' = s \o (IF tl = << >> THEN << >>
                         ELSE IF s # << >> /\ s[Len(s)] = Colon THEN tl ELSE <<Colon>> \o tl) \o r
          /\ meta' = [meta EXCEPT !.st = "done"]

Next == \/ /\ Mode = "strings" /\ Len(s) < MaxLen
           /\ \E c \in Alphabet : s' = Append(s, c)
           /\ UNCHANGED meta
        \/ Mode = "v4" /\ Next4
        \/ Mode = "v6" /\ Next6
Spec == Init /\ [][Next]_gvars

\* ---- spec-level sanity of the scanner on every generated case --------------
T6 == Tokens6(s)
T4 == Tokens4(s)
Complete == meta.st = "done"
Disjoint == (Complete /\ ~DontCare(s)) => \A p, q \in (T6 \cup T4) : p = q \/ p[2] < q[1] \/ q[2] < p[1]
\* aligning a line with itself succeeds and pairs every token with itself
SelfAlignOK == LET A == Align(s, s, TRUE, TRUE) IN
               /\ A[1] /\ Len(A[2]) = Cardinality(T6) + Cardinality(T4)
               /\ \A i \in 1..Len(A[2]) : A[2][i].tok = A[2][i].rep
SelfAlign == (Complete /\ TailTokens(s) = {} /\ ~DontCare(s)) => SelfAlignOK
\* a token never touches a character of its own run class
DelimitedOK == /\ \A r \in T4 : (r[1] = 1 \/ ~Run4(s[r[1] - 1])) /\ (r[2] = Len(s) \/ ~Run4(s[r[2] + 1]))
               /\ \A r \in Plain6Tokens(s) : (r[1] = 1 \/ ~Run6(s[r[1] - 1])) /\ (r[2] = Len(s) \/ ~Run6(s[r[2] + 1]))
Delimited == Complete => DelimitedOK
\* the bit-twiddling-free definition of "mask shaped" agrees with the written-out set (all 256 values at width 8: checked once)
ASSUME MaskTheorem(8)
MaskOK == Mode = "mask" => (meta.mask <=> meta.bits \in MaskSet(32))
Emit == meta.st # "done" \/ Serialize(ToJson(IF Mode = "mask" THEN [bits |-> meta.bits, mask |-> meta.mask] ELSE [s |-> s, n4 |-> Cardinality(T4), n6 |-> Cardinality(T6), dc |-> DontCare(s)]) \o "\n",
                  IOEnv.OUT_FILE, [format |-> "TXT", charset |-> "UTF-8",
                                   openOptions |-> <<"WRITE", "CREATE", "APPEND">>]).exitValue = 0
=============================================================================
