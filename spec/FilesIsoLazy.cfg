CONSTANTS N = 4  Lazy = TRUE
SPECIFICATION Spec
INVARIANT IsolationVsAbsent
CHECK_DEADLOCK FALSE
