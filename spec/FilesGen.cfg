CONSTANTS Dirs = {0, 1, 2, 3}  DotDir = 3  Names = {"a", "b", "sp", "uni", "dot"}
          MaxFiles = 2  WithEnv = TRUE  WithSingle = TRUE  AllOrders = FALSE
SPECIFICATION MSpec
INVARIANT Emit
CHECK_DEADLOCK FALSE
