-------------------------------- MODULE CliM --------------------------------
(***************************************************************************)
(* C19 - implementation-shaped description (M) of netconan.netconan.main   *)
(* as pure operators on an option vector (the step machine built from them *)
(* and the check M => R are in CliImpl).                                   *)
(*                                                                         *)
(* M mirrors the code: configargparse turns config-file entries into extra *)
(* command-line arguments, but only for keys that are NOT already on the   *)
(* command line (so an overridden config value is never type-checked);     *)
(* argparse then enforces the required options and the host-bit type       *)
(* function (SystemExit); main() runs its checks in a fixed order          *)
(* (ValueError), splits the lists, merges the RFC 1918 networks into the   *)
(* preserved addresses, and either warns (no anonymization option) or      *)
(* calls anonymize_files, which writes the output tree and then the dump.  *)
(*                                                                         *)
(* Verdicts never come from here: a disagreement between the real code and *)
(* M that R accepts is reported as drift only.                             *)
(***************************************************************************)
EXTENDS Cli

\* ---- configargparse + argparse ---------------------------------------------
Merged(v, o) ==
  IF v.cli[o] # None THEN v.cli[o]
  ELSE IF o \in Flags THEN (IF v.cfg[o] = "true" THEN "on" ELSE None)
  ELSE v.cfg[o]
\* configargparse drops a config entry only when it RECOGNISES the option among the
\* command-line tokens (exact -x / --long token, or --long=V).  For a glued short form
\* or an abbreviation it injects the config value in front of the command line and
\* leaves the override to argparse's "last occurrence wins" - the merged value is the
\* same, but the injected config value has been through the type function first.
Recognised(v, o) == v.sp[o] \in {"any", "long", "eq", "short"}
ArgparseError(v) ==
  \/ Merged(v, "i") = None \/ Merged(v, "o") = None
  \/ HbBad(Merged(v, "hb"))
  \/ (v.cli["hb"] # None /\ ~Recognised(v, "hb") /\ HbBad(v.cfg["hb"]))
\* ---- main(): the checks in source order ------------------------------------
Checks == << "chk_input", "chk_output", "chk_undo_anon", "chk_undo_salt", "chk_dump" >>
Fails(v, c) ==
  CASE c = "chk_input"     -> Merged(v, "i") = "EMPTY"
    [] c = "chk_output"    -> Merged(v, "o") = "EMPTY"
    [] c = "chk_undo_anon" -> Merged(v, "u") = "on" /\ Merged(v, "a") = "on"
    [] c = "chk_undo_salt" -> Merged(v, "u") = "on" /\ Merged(v, "s") = None
    [] c = "chk_dump"      -> Merged(v, "d") # None /\ Merged(v, "a") # "on"
MAny(v) == \/ Merged(v, "n") # None \/ Merged(v, "w") # None
           \/ Merged(v, "p") = "on" \/ Merged(v, "a") = "on" \/ Merged(v, "u") = "on"
MHostBits(v) == IF Merged(v, "hb") = None THEN 8 ELSE HbVal[Merged(v, "hb")]
MCall(v) ==
  LET pa    == IF Merged(v, "pa") = None THEN {} ELSE Items[Merged(v, "pa")]
      addrs == IF Merged(v, "pv") = "on" THEN RFC1918 ELSE {}
  IN [ input    |-> Merged(v, "i"),  output |-> Merged(v, "o"),
       pwd      |-> Merged(v, "p") = "on",  ip |-> Merged(v, "a") = "on",
       undo     |-> Merged(v, "u") = "on",
       salt     |-> Merged(v, "s"),  dump |-> Merged(v, "d"),
       words    |-> Merged(v, "w"),  asn  |-> Merged(v, "n"),  reserved |-> Merged(v, "r"),
       \* argparse default of --preserve-prefixes is the joined DEFAULT_PRESERVED_PREFIXES
       prefixes |-> IF Merged(v, "pp") = None THEN Classes \cup RFC1918 ELSE Items[Merged(v, "pp")],
       nets     |-> pa \cup addrs,
       hb4      |-> MHostBits(v),  hb6 |-> MHostBits(v) ]

\* M's prediction of the observable outcome, as a function (used for drift reports)
RECURSIVE FirstFail(_, _)
FirstFail(v, k) == IF k > Len(Checks) THEN 0 ELSE IF Fails(v, Checks[k]) THEN k ELSE FirstFail(v, k + 1)
MOutcome(v) == IF ArgparseError(v) THEN "exit" ELSE IF FirstFail(v, 1) # 0 THEN "exc" ELSE "return"
MCreated(v) == IF MOutcome(v) # "return" \/ ~MAny(v) THEN {}
               ELSE {"out"} \cup (IF Merged(v, "d") # None THEN {"dump"} ELSE {})
=============================================================================
