------------------------------ MODULE IpTrace ------------------------------
(***************************************************************************)
(* Trace validation of recorded executions of netconan's address           *)
(* anonymizers against the R-module PrefixMap.                             *)
(*                                                                         *)
(* A trace file (ndjson, env TRACE_FILE) holds many traces; every trace    *)
(* starts with a "cfg" event (width, host bits, preserved prefixes and     *)
(* networks, and which clauses its property enables) followed by the       *)
(* public-call-return events of one or more anonymizer instances that were *)
(* constructed with the SAME salt and options:                             *)
(*    anon   inst x y      anonymize(x) returned y                         *)
(*    deanon inst x y      deanonymize(y) returned x                       *)
(*    dump   inst pairs bad  dump_to_file wrote these <<original, image>>  *)
(*                          (bad = lines not of the form addr TAB addr)    *)
(*    exc    what          an exception escaped (never accepted)           *)
(* flip is never logged: the pairs revealed so far (obs) must be           *)
(* explainable by SOME admissible flip, which by PrefixMap!TraceLemma is   *)
(* the conjunction of the per-pair / pairwise clauses used here.           *)
(*                                                                         *)
(* The verdict is total: every event is consumed, a rejected event is      *)
(* reported with the name of the first failing clause and the rest of its  *)
(* trace is skipped, so one TLC run judges thousands of traces.            *)
(***************************************************************************)
EXTENDS PrefixMap, Json, IOUtils

Trace == ndJsonDeserialize(IOEnv.TRACE_FILE)
N     == Len(Trace)

VARIABLES l,        \* next event to consume
          anonP,    \* [instance -> set of pairs that instance produced by anonymize]
          skip,     \* trace id being skipped after a rejection (or 0; trace ids start at 1)
          cls       \* clauses enabled by the current trace's cfg event
tvars == <<vars, l, anonP, skip, cls>>

ToSet(s) == {s[i] : i \in 1..Len(s)}

\* first failing clause of a pair against the current configuration and history
PairVerdict(x, y, S, cl) ==
  IF ~PairShape(x, y) THEN "Shape"
  ELSE IF "Suffix" \in cl /\ ~PairSuffix(x, y) THEN "Suffix"
  ELSE IF "Pins" \in cl /\ ~PairPins(x, y) THEN "Pins"
  ELSE IF "Nets" \in cl /\ ~PairNets(x, y) THEN "Nets"
  ELSE IF "Consistent" \in cl /\ ~PairConsistent(x, y, S) THEN "Consistent"
  ELSE "ok"

DumpVerdict(inst, P, bad, cl) ==
  LET PS_ == ToSet(P)
      mine == IF inst \in DOMAIN anonP THEN anonP[inst] ELSE {} IN
  IF bad # << >> THEN "DumpFormat"      \* a line that is not <address of this family> TAB <address of this family>
  ELSE IF \E i, j \in 1..Len(P) : i < j /\ (P[i][1] = P[j][1] \/ P[i][2] = P[j][2]) THEN "DumpDuplicate"
  ELSE IF ~(mine \subseteq PS_) THEN "DumpMissing"
  ELSE IF \E p \in PS_ : PairVerdict(p[1], p[2], obs \cup PS_, cl) # "ok" THEN "DumpInconsistent"
  ELSE "ok"

TraceInit ==
  /\ l = 1 /\ anonP = << >> /\ skip = 0 /\ cls = {}
  /\ w = 1 /\ ps = 0 /\ pins = {} /\ nets = {} /\ flip = << >> /\ keyed = TRUE /\ obs = {}

Cur == Trace[l]

Reject(e, c) ==
  /\ PrintT(<<"FAIL", e.tid, l, c>>)
  /\ skip' = e.tid
  /\ UNCHANGED <<vars, anonP, cls>>

StepCfg(e) ==
  /\ w' = e.w /\ ps' = e.ps
  /\ pins' = ToSet(e.pins) /\ nets' = ToSet(e.nets)
  /\ obs' = {} /\ anonP' = << >> /\ skip' = 0 /\ cls' = ToSet(e.clauses)
  /\ UNCHANGED <<flip, keyed>>

StepPair(e) ==
  LET v == PairVerdict(e.x, e.y, obs, cls) IN
  IF v # "ok" THEN Reject(e, v)
  ELSE /\ obs' = obs \cup {<<e.x, e.y>>}
       /\ anonP' = IF e.ev = "anon"
                   THEN (IF e.inst \in DOMAIN anonP
                         THEN [anonP EXCEPT ![e.inst] = @ \cup {<<e.x, e.y>>}]
                         ELSE anonP @@ (e.inst :> {<<e.x, e.y>>}))
                   ELSE anonP
       /\ UNCHANGED <<cfgvars, flip, keyed, skip, cls>>

StepDump(e) ==
  LET v == DumpVerdict(e.inst, e.pairs, e.bad, cls) IN
  IF v # "ok" THEN Reject(e, v)
  ELSE /\ obs' = obs \cup ToSet(e.pairs)
       /\ UNCHANGED <<cfgvars, flip, keyed, anonP, skip, cls>>

TraceNext ==
  /\ l <= N
  /\ l' = l + 1
  /\ LET e == Cur IN
     IF e.ev = "cfg" THEN StepCfg(e)
     ELSE IF e.tid = skip THEN UNCHANGED <<vars, anonP, skip, cls>>
     ELSE IF e.ev \in {"anon", "deanon"} THEN StepPair(e)
     ELSE IF e.ev = "dump" THEN StepDump(e)
     ELSE Reject(e, "Exception")

TraceSpec == TraceInit /\ [][TraceNext]_tvars

\* all events consumed (POSTCONDITION would do as well; printing lets the
\* harness tell "TLC stopped early" from "every event was judged")
Done == l = N + 1 => PrintT(<<"DONE", N>>)
=============================================================================
