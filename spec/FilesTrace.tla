----------------------------- MODULE FilesTrace -----------------------------
(***************************************************************************)
(* Trace validation of real netconan runs against Files.tla (R).           *)
(* One trace = one run of one entry point on one materialised scenario:    *)
(*   start                                                                 *)
(*   file  id hidden indot fault in0 in1 pre out ref refnl ifproc base     *)
(*         reported tol          one per input file, observed after the run*)
(*   iso   id fault in0 in1 pre out absent allfailed ifproc reported       *)
(*         (distinct-secret trees: judged against the run on the tree      *)
(*          without the failing files, clause IsolationVsAbsent)           *)
(*   end   others0 others1       the rest of the sandbox                   *)
(* Contents are digests (strings); TLC decides every equality.  `refnl` is *)
(* what the stream API returns for the text with CR LF / CR rewritten to   *)
(* LF beforehand: it only NAMES the clause when the file entry points read *)
(* with newline translation (EntryPointsDifferNewline); with               *)
(* tol = TRUE (diagnostic re-validation of such a run) that difference is  *)
(* tolerated so that every OTHER clause is still judged.                   *)
(* Every event is judged (total verdict); nothing is skipped after a       *)
(* rejection.                                                              *)
(***************************************************************************)
EXTENDS Files, Json, IOUtils

Trace == ndJsonDeserialize(IOEnv.TRACE_FILE)
N     == Len(Trace)
VARIABLES l, skip
tvars == <<rvars, l, skip>>

Verdict(e) == IF e.ev = "file" THEN FileVerdict(e)
              ELSE IF e.ev = "iso" THEN IsoVerdict(e)
              ELSE IF e.ev = "end" THEN EndVerdict(e)
              ELSE "UnknownEvent"

TraceInit == /\ l = 1 /\ skip = 0
             /\ scn = 0 /\ outT = 0 /\ inT = 0 /\ rep = 0 /\ left = 0 /\ others = 0
Reject(e, c) == PrintT(<<"FAIL", e.tid, l, c>>) /\ skip' = e.tid
TraceNext ==
  /\ l <= N /\ l' = l + 1 /\ UNCHANGED rvars
  /\ LET e == Trace[l] IN
     IF e.ev = "start" THEN skip' = 0
     ELSE LET v == Verdict(e) IN
          IF v # "ok" THEN Reject(e, v) ELSE UNCHANGED skip
TraceSpec == TraceInit /\ [][TraceNext]_tvars
TraceDone == l = N + 1 => PrintT(<<"DONE", N>>)
=============================================================================
