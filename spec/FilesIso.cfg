CONSTANTS N = 4  Lazy = FALSE
SPECIFICATION Spec
INVARIANT IsolationVsAbsent
CHECK_DEADLOCK FALSE
