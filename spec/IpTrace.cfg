CONSTANTS MaxW = 1  MaxPins = 0  LemmaPairs = 0
SPECIFICATION TraceSpec
INVARIANT Done
CHECK_DEADLOCK FALSE
