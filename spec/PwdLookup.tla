------------------------------ MODULE PwdLookup ------------------------------
(***************************************************************************)
(* M-module: the secret lookup as the code implements it                   *)
(* (_anonymize_value), over a small universe of secret occurrences.        *)
(*                                                                         *)
(* An occurrence is <<plain, enc>>:  plain is the underlying plaintext     *)
(* ("A" is all-digit, "B" is text), enc says how it is written on the      *)
(* line: "clear", "c1" / "c2" (two different valid $9$ encodings), "bad"   *)
(* (a string that starts with $9$ but does not decrypt), or "resv" (the    *)
(* value is a reserved word).                                              *)
(*   val(o)  = the string on the line without enclosing text               *)
(*   dec(o)  = its $9$ plaintext when it has one                           *)
(* The code keeps ONE dictionary keyed by val or by dec:                   *)
(*   branch 1  val in lookup        -> stored value as is                  *)
(*   branch 2  dec in lookup        -> $9$ encoding of the stored value    *)
(*   branch 3  miss: number = size of the dictionary, shaped like the      *)
(*             class of val; stored under dec (as plain text) when val     *)
(*             decrypts to something non-empty, else under val.            *)
(* A reply is [n, shape, inner]: pseudonym number, the format it is        *)
(* written in, and (for a $9$ reply) the format of the encrypted content.  *)
(*                                                                         *)
(* TLC checks M => Secrets (Consistent + Injective on every step of every  *)
(* history) and shows that ClassKept is NOT an invariant of M: the history *)
(* << $9$(A) ; clear A >> answers the all-digit secret with a text         *)
(* pseudonym (finding D14; kept as ExpectedClassBreak).                    *)
(***************************************************************************)
EXTENDS Naturals, Sequences, FiniteSets, TLC, Json, IOUtils

CONSTANT MaxHist
Plains == {"A", "B"}
Encs   == {"clear", "c1", "c2", "bad", "resv"}
Occs   == (Plains \X {"clear", "c1", "c2", "bad"}) \cup {<<"R", "resv">>}

None == <<"none">>
Val(o) == IF o[2] = "clear" THEN <<"v", o[1]>> ELSE IF o[2] = "resv" THEN <<"r">> ELSE <<"9", o[1], o[2]>>
Dec(o) == IF o[2] \in {"c1", "c2"} THEN <<"v", o[1]>> ELSE None
ClassOf(o) == IF o[2] \in {"c1", "c2", "bad"} THEN "juniper9"
              ELSE IF o[1] = "A" THEN "numeric" ELSE "text"
\* R's notion of "the same secret"
Key(o) == IF Dec(o) # None THEN Dec(o) ELSE Val(o)

VARIABLES lookup,   \* the dictionary: key -> [n, shape, inner]
          hist,     \* history of <<occurrence, reply>>
          rl        \* R's lookup reconstructed from the replies (refinement mapping)
vars == <<lookup, hist, rl>>

Has(k) == k \in DOMAIN lookup
Reply(o) ==
  IF o[2] = "resv" THEN [n |-> 0, shape |-> "unchanged", inner |-> "none"]
  ELSE IF Has(Val(o)) THEN lookup[Val(o)]
  ELSE IF Dec(o) # None /\ Has(Dec(o)) THEN [n |-> lookup[Dec(o)].n, shape |-> "juniper9", inner |-> lookup[Dec(o)].shape]
  ELSE [n |-> Cardinality(DOMAIN lookup), shape |-> ClassOf(o),
        inner |-> IF ClassOf(o) = "juniper9" THEN "text" ELSE "none"]
Store(o) ==
  IF o[2] = "resv" \/ Has(Val(o)) \/ (Dec(o) # None /\ Has(Dec(o))) THEN lookup
  ELSE LET n == Cardinality(DOMAIN lookup) IN
       IF Dec(o) # None THEN (Dec(o) :> [n |-> n, shape |-> "text", inner |-> "none"]) @@ lookup
       ELSE (Val(o) :> Reply(o)) @@ lookup

\* the decoded pseudonym R sees: number + the format of the decoded text
Pseudo(r) == IF r.shape = "juniper9" THEN <<r.n, r.inner>> ELSE <<r.n, r.shape>>

Init == lookup = << >> /\ hist = << >> /\ rl = << >>
See(o) ==
  /\ Len(hist) < MaxHist
  /\ lookup' = Store(o)
  /\ hist' = Append(hist, <<o, Reply(o)>>)
  /\ rl' = IF o[2] = "resv" \/ Key(o) \in DOMAIN rl THEN rl ELSE (Key(o) :> Pseudo(Reply(o))) @@ rl
Next == \E o \in Occs : See(o)
Spec == Init /\ [][Next]_vars

\* ---- M => R (C08) ----------------------------------------------------------
Range(f) == {f[k] : k \in DOMAIN f}
\* every reply is what R allows given R's own lookup before the step
StepOK == [][\A o \in Occs : (hist' = Append(hist, <<o, Reply(o)>>) /\ o[2] # "resv") =>
               (IF Key(o) \in DOMAIN rl THEN rl[Key(o)] = Pseudo(Reply(o))
                ELSE Pseudo(Reply(o)) \notin Range(rl))]_vars
RInjective == \A a, b \in DOMAIN rl : rl[a] = rl[b] => a = b
\* C09 on M: NOT an invariant (D14) - used with the expectation that TLC refutes it
ClassKept == \A i \in 1..Len(hist) : hist[i][1][2] = "resv" \/ hist[i][2].shape = ClassOf(hist[i][1])
\* the predicted counterexample
ExpectedClassBreak == ~(Len(hist) = 2 /\ hist[1][1] = <<"A", "c1">> /\ hist[2][1] = <<"A", "clear">>
                        /\ hist[2][2].shape = "text")

Emit == Len(hist) < MaxHist \/
        Serialize(ToJson([hist |-> hist]) \o "\n", IOEnv.OUT_FILE,
                  [format |-> "TXT", charset |-> "UTF-8",
                   openOptions |-> <<"WRITE", "CREATE", "APPEND">>]).exitValue = 0
=============================================================================
