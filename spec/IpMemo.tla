------------------------------- MODULE IpMemo -------------------------------
(***************************************************************************)
(* M-module: the address anonymizer as the code implements it.             *)
(*                                                                         *)
(*   - one bidirectional memo (netconan: a bidict) keyed by bit strings of *)
(*     every length, pre-seeded with identity entries for both children of *)
(*     every node on the path to a preserved prefix / preserved network;   *)
(*   - anonymize walks towards the root until a memo hit, then computes    *)
(*     each missing bit as  bit XOR salter(ORIGINAL prefix)  and stores    *)
(*     every intermediate prefix;                                          *)
(*   - undo walks the inverse memo and recomputes each flip from the       *)
(*     RECOVERED ORIGINAL prefix, storing through the inverse view;        *)
(*   - with host bits preserved (ps > 0) only the leading part is walked   *)
(*     and the full address is stored as one extra memo entry (that is     *)
(*     what --dump-ip-map prints);                                         *)
(*   - a bidict refuses a second key for an existing value: modelled by    *)
(*     the err flag.                                                       *)
(*                                                                         *)
(* TLC checks, for every configuration, every salter (= every hash) and    *)
(* every history of requests, that M answers exactly like the R-module     *)
(* PrefixMap (RespondsLikeR, an action property so that it is evaluated on *)
(* every transition even though `last` is hidden from the fingerprint).    *)
(***************************************************************************)
EXTENDS Naturals, Sequences, FiniteSets, TLC

CONSTANTS MaxW, MaxPins

VARIABLES w, ps, pins, nets,      \* option vector (as in PrefixMap)
          keyed,                  \* constructor has run
          salter,                 \* the hash: [prefixes shorter than AW -> Bit]
          memo,                   \* set of <<key, value>> pairs, a bijection
          anoned,                 \* history: addresses anonymized by this instance
          err,                    \* a bidict duplication error was raised
          last                    \* the last request and its answer (observation)
cfgvars == <<w, ps, pins, nets>>
vars == <<w, ps, pins, nets, keyed, salter, memo, anoned, err, last>>
view == <<w, ps, pins, nets, keyed, salter, memo, anoned, err>>

\* the R-module, with its flip read off the salter and the seeds
FlipOf == [p \in {q \in UNION {[1..n -> {0, 1}] : n \in 0..w} : Len(q) < w - ps} |->
             IF \E q \in pins \cup nets : Len(p) < Len(q) /\ SubSeq(q, 1, Len(p)) = p
             THEN 0 ELSE salter[p]]
R == INSTANCE PrefixMap WITH flip <- FlipOf, obs <- {}, LemmaPairs <- 0

Bit == {0, 1}
AW == w - ps
Xor(a, b) == (a + b) % 2
Take(s, n) == SubSeq(s, 1, n)
Front(s) == SubSeq(s, 1, Len(s) - 1)
AllPins == pins \cup nets

HasKey(m, k) == \E e \in m : e[1] = k
HasVal(m, v) == \E e \in m : e[2] = v
ValOf(m, k)  == (CHOOSE e \in m : e[1] = k)[2]
KeyOf(m, v)  == (CHOOSE e \in m : e[2] = v)[1]
\* bidict item assignment m[k] = v : an existing key is overwritten, a value that
\* already belongs to another key raises (ValueDuplicationError)
Clash(m, k, v) == \E e \in m : e[2] = v /\ e[1] # k
Put(m, k, v)   == {e \in m : e[1] # k} \cup {<<k, v>>}
\* assignment through the inverse view m.inv[v] = k : an existing value is
\* overwritten, a key that already has another value raises
ClashInv(m, v, k) == \E e \in m : e[1] = k /\ e[2] # v
PutInv(m, v, k)   == {e \in m : e[2] # v} \cup {<<k, v>>}

Seed == {<<<< >>, << >>>>} \cup
        {<<k, k>> : k \in UNION {{Append(Take(q, j), b) : j \in 0..(Len(q) - 1), b \in Bit} : q \in AllPins}}

\* result: <<value, memo', error>>
RECURSIVE Walk(_, _)
Walk(m, bits) ==
  IF HasKey(m, bits) THEN <<ValOf(m, bits), m, FALSE>>
  ELSE LET h == Front(bits)
           r == Walk(m, h)
           v == Append(r[1], Xor(salter[h], bits[Len(bits)]))
       IN  <<v, Put(r[2], bits, v), r[3] \/ Clash(r[2], bits, v)>>

RECURSIVE WalkInv(_, _)
WalkInv(m, bits) ==
  IF HasVal(m, bits) THEN <<KeyOf(m, bits), m, FALSE>>
  ELSE LET h == Front(bits)
           r == WalkInv(m, h)
           o == r[1]                                   \* recovered original head
           v == Append(o, Xor(salter[o], bits[Len(bits)]))
       IN  <<v, PutInv(r[2], bits, v), r[3] \/ ClashInv(r[2], bits, v)>>

Prefix == UNION {[1..n -> Bit] : n \in 0..w}
Addr   == [1..w -> Bit]

Init == /\ R!InitCfg
        /\ keyed = FALSE /\ salter = << >> /\ memo = {} /\ anoned = {} /\ err = FALSE
        /\ last = [op |-> "none"]

Construct ==
  /\ ~keyed /\ keyed' = TRUE
  /\ salter' \in [{p \in Prefix : Len(p) < AW} -> Bit]
  /\ memo' = Seed
  /\ last' = [op |-> "new"]
  /\ UNCHANGED <<cfgvars, anoned, err>>

DoAnon(a) ==
  /\ keyed /\ ~err
  /\ IF ps = 0
     THEN LET r == Walk(memo, a) IN
          /\ memo' = r[2] /\ err' = r[3]
          /\ last' = [op |-> "anon", in |-> a, out |-> r[1]]
     ELSE LET r   == Walk(memo, Take(a, AW))
              out == r[1] \o SubSeq(a, AW + 1, w) IN
          /\ memo' = Put(r[2], a, out)                 \* the extra full-address entry
          /\ err' = (r[3] \/ Clash(r[2], a, out))
          /\ last' = [op |-> "anon", in |-> a, out |-> out]
  /\ anoned' = anoned \cup {a}
  /\ UNCHANGED <<cfgvars, keyed, salter>>

DoDeanon(y) ==
  /\ keyed /\ ~err
  /\ IF ps = 0
     THEN LET r == WalkInv(memo, y) IN
          /\ memo' = r[2] /\ err' = r[3]
          /\ last' = [op |-> "deanon", in |-> y, out |-> r[1]]
     ELSE LET r   == WalkInv(memo, Take(y, AW))
              out == r[1] \o SubSeq(y, AW + 1, w) IN
          /\ memo' = r[2] /\ err' = r[3]
          /\ last' = [op |-> "deanon", in |-> y, out |-> out]
  /\ UNCHANGED <<cfgvars, keyed, salter, anoned>>

DoDump ==
  /\ keyed /\ ~err
  /\ last' = [op |-> "dump", out |-> {e \in memo : Len(e[1]) = w}]
  /\ UNCHANGED <<cfgvars, keyed, salter, memo, anoned, err>>

Next == Construct \/ DoDump \/ \E a \in Addr : DoAnon(a) \/ DoDeanon(a)
Spec == Init /\ [][Next]_vars

(***************************************************************************)
(* M => R                                                                  *)
(***************************************************************************)
NoErr == ~err
ImgP(k) == [i \in 1..Len(k) |-> Xor(k[i], FlipOf[Take(k, i - 1)])]
\* C03: every memo entry is the pure value, whatever the history
MemoSound == keyed => \A e \in memo :
                 IF Len(e[1]) <= AW THEN e[2] = ImgP(e[1])
                 ELSE IF Len(e[1]) = w THEN e[2] = R!Img(FlipOf, e[1])
                 ELSE e[2] = e[1]
MemoBijective == \A e, f \in memo : (e[1] = f[1]) <=> (e[2] = f[2])
\* C01-C03: every answer is the R answer (evaluated on every transition)
AnswerOK(l) == CASE l.op = "anon"   -> l.out = R!Img(FlipOf, l.in)
                 [] l.op = "deanon" -> R!Img(FlipOf, l.out) = l.in /\ l.out = R!Inv(FlipOf, l.in)
                 [] l.op = "dump"   -> /\ \A a \in anoned : <<a, R!Img(FlipOf, a)>> \in l.out   \* C17
                                       /\ \A e \in l.out : e[2] = R!Img(FlipOf, e[1])
                 [] OTHER -> TRUE
RespondsLikeR == [][keyed' => AnswerOK(last')]_vars
=============================================================================
