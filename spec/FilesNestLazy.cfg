CONSTANTS Lazy = TRUE  MaxLen = 7
SPECIFICATION Spec
INVARIANTS NothingElseWritten OneToOne InputsKept
CHECK_DEADLOCK FALSE
