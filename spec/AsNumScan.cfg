CONSTANTS
  Bounds <- DecBounds
  Lists <- ListsScan
  Lines <- LinesScan
  Hashes <- HashesScan2
  MaxLen = 5
  MaxList = 2
  NumLen = 2
SPECIFICATION Spec
INVARIANT MImpliesR
INVARIANT RDeterminate
INVARIANT LearnsMap
CHECK_DEADLOCK FALSE
