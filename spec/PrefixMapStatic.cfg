\* static theorems (C01, C02, C04, C05) for every configuration and every flip
CONSTANTS MaxW = 3  MaxPins = 2  LemmaPairs = 0
INIT Init
NEXT NextStatic
INVARIANT PrefixPreserving
INVARIANT Permutation
INVARIANT RoundTrip
INVARIANT PinsKept
INVARIANT SuffixKept
INVARIANT LeadIndependent
INVARIANT NoCollision
CHECK_DEADLOCK FALSE
