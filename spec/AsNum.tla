------------------------------- MODULE AsNum -------------------------------
(***************************************************************************)
(* C11 - AS numbers: block-preserving, whole-number-only, keyed            *)
(* replacement.                                                            *)
(*                                                                         *)
(* Numbers are DIGIT SEQUENCES (most significant digit first): 4294967295  *)
(* does not fit TLC's integers, so order and block membership are decided  *)
(* on the digits.  Text is a sequence of character codes produced by the   *)
(* harness:                                                                *)
(*      0..9            the ASCII digits '0'..'9'                          *)
(*      100 + cp        any other character with code point cp             *)
(*      2000000 + cp    a non-ASCII numeric character (Unicode N*, e.g.    *)
(*                      Arabic-Indic digits, superscripts, CJK numerals)   *)
(*      1500000         an IP address token (only in runs where the        *)
(*                      address stage is on: the harness projects every    *)
(*                      address token of input and output to this one      *)
(*                      code, so the clauses below speak about the text    *)
(*                      OUTSIDE addresses; to R it is one more non-digit)  *)
(* so "unchanged" is decided here, character by character.                 *)
(*                                                                         *)
(* R (what C11 states, nothing more)                                       *)
(*   - a line is cut into maximal digit runs and maximal non-digit chunks; *)
(*   - a run that EQUALS a listed number n is replaced by a number r with  *)
(*     Block(r) = Block(n), and r is the same for the same (salt, n)       *)
(*     wherever and whenever it is observed (the learned map `known`);     *)
(*   - every other run (in particular a longer number that merely contains *)
(*     the digits of a listed one) and every non-digit chunk is unchanged. *)
(*   Any hash, any offset inside the block and r = n are accepted.         *)
(*   Don't-care (accepted whatever happens): a run that spells a listed    *)
(*   number with leading zeros; lines with non-ASCII numeric characters;   *)
(*   lists with entries that are not canonical decimals in 0..4294967295.  *)
(*   NOT a don't-care: a listed number next to punctuation is standalone   *)
(*   whatever lies beyond the punctuation, digits included (1.65001,       *)
(*   65001.1, 7:65001/9 - the quantifier says "adjacent to punctuation");  *)
(*   AS-dot notation is not interpreted, each digit run stands for itself. *)
(*                                                                         *)
(* M (how netconan does it; used for TLC design checks only, see AsNumMC)  *)
(*   r = h mod (B[i+1] - B[i]) + B[i];  one left-to-right pass trying the  *)
(*   listed numbers in list order at every position that is not preceded   *)
(*   by a digit, accepting the first one that is not followed by a digit.  *)
(*   The map of an anonymizer holds every listed number's own r (named     *)
(*   deviation AvoidCollisions: re-hash when an earlier number took it).   *)
(***************************************************************************)
EXTENDS Naturals, Sequences, FiniteSets, TLC

CONSTANT Bounds      \* <<start of block 1, start of block 2, start of block 3, end (exclusive)>> as digit sequences

RealBounds  == << <<6,4,5,1,2>>, <<6,5,5,3,6>>, <<4,2,0,0,0,0,0,0,0,0>>, <<4,2,9,4,9,6,7,2,9,6>> >>
SmallBounds == << <<4>>, <<6>>, <<1,2>>, <<1,6>> >>              \* the design's scaled table (0,4,6,12,16)
DecBounds   == << <<1,0>>, <<1,0,0>>, <<1,0,0,0>>, <<1,0,0,0,0>> >>   \* blocks = number of digits (scanner models)

\* ---- character codes -------------------------------------------------------
IsDig(c)     == c < 10
IsForeign(c) == c >= 2000000

\* ---- numbers as digit sequences --------------------------------------------
DigitSeq(s) == \A i \in 1..Len(s) : IsDig(s[i])
RECURSIVE Norm(_)
Norm(s) == IF Len(s) > 1 /\ s[1] = 0 THEN Norm(Tail(s)) ELSE s
Canon(s) == Len(s) >= 1 /\ DigitSeq(s) /\ (Len(s) = 1 \/ s[1] # 0)
\* strict order on canonical digit sequences
Less(a, b) ==
  \/ Len(a) < Len(b)
  \/ /\ Len(a) = Len(b)
     /\ \E i \in 1..Len(a) : a[i] < b[i] /\ \A j \in 1..(i - 1) : a[j] = b[j]
\* number of boundaries that are <= the value: 0..Len(B)-1 are the blocks,
\* Len(B) means "beyond the AS number range"
BlockOf(B, s) == LET n == Norm(s) IN Cardinality({k \in 1..Len(B) : ~Less(n, B[k])})
NB            == Len(Bounds)
Block(s)      == BlockOf(Bounds, s)
Listable(s)   == Canon(s) /\ Block(s) < NB

\* the block table itself, at every end point and its neighbours (checked by TLC at start-up)
ASSUME RealBlockTable ==
  /\ BlockOf(RealBounds, <<0>>) = 0                      /\ BlockOf(RealBounds, <<6,4,5,1,1>>) = 0
  /\ BlockOf(RealBounds, <<6,4,5,1,2>>) = 1              /\ BlockOf(RealBounds, <<6,5,5,3,5>>) = 1
  /\ BlockOf(RealBounds, <<6,5,5,3,6>>) = 2              /\ BlockOf(RealBounds, <<4,1,9,9,9,9,9,9,9,9>>) = 2
  /\ BlockOf(RealBounds, <<4,2,0,0,0,0,0,0,0,0>>) = 3    /\ BlockOf(RealBounds, <<4,2,9,4,9,6,7,2,9,5>>) = 3
  /\ BlockOf(RealBounds, <<4,2,9,4,9,6,7,2,9,6>>) = 4    /\ BlockOf(RealBounds, <<1,0,0,0,0,0,0,0,0,0,0>>) = 4
  /\ BlockOf(RealBounds, <<9,9,9,9,9>>) = 2              /\ BlockOf(RealBounds, <<9,9,9,9>>) = 0
  /\ BlockOf(RealBounds, <<0,0,6,4,5,1,2>>) = 1          /\ BlockOf(RealBounds, <<6,5,0,0,0>>) = 1
  /\ BlockOf(RealBounds, <<4,2,0,0,0,0,0,0,0,1>>) = 3    /\ BlockOf(RealBounds, <<3,9,9,9,9,9,9,9,9,9>>) = 2

\* ---- R: one replacement -----------------------------------------------------
\* n: a listed (listable) number; r: the text returned for it as character codes;
\* known: the replacements already revealed for this salt (function number -> Norm(replacement))
ReplVerdict(n, r, known) ==
  IF Len(r) = 0 \/ ~DigitSeq(r) THEN "ReplacementNotANumber"
  ELSE IF Block(r) # Block(n) THEN "BlockNotKept"
  ELSE IF n \in DOMAIN known /\ known[n] # Norm(r) THEN "NotAFunctionOfSaltAndNumber"
  ELSE "ok"
Learn(known, n, r) == IF n \in DOMAIN known THEN known ELSE (n :> Norm(r)) @@ known

\* ---- R: the whole-number scanner --------------------------------------------
RECURSIVE RunEnd(_, _)
RunEnd(line, i) ==
  IF i < Len(line) /\ IsDig(line[i + 1]) = IsDig(line[i]) THEN RunEnd(line, i + 1) ELSE i
RECURSIVE SegsFrom(_, _)
SegsFrom(line, i) ==
  IF i > Len(line) THEN << >>
  ELSE LET e == RunEnd(line, i) IN <<SubSeq(line, i, e)>> \o SegsFrom(line, e + 1)
\* maximal digit runs and maximal non-digit chunks, in order
Segs(line) == SegsFrom(line, 1)

OutOfScopeLine(line) == \E i \in 1..Len(line) : IsForeign(line[i])

\* L: set of listed numbers; A, B: segments of the input and of the output
RECURSIVE Judge(_, _, _, _, _)
Judge(L, A, B, i, known) ==
  IF i > Len(A) THEN [clause |-> "ok", known |-> known]
  ELSE LET a == A[i]
           b == B[i]
       IN IF IsDig(a[1]) # IsDig(b[1]) THEN [clause |-> "StructureChanged", known |-> known]
          ELSE IF ~IsDig(a[1])
               THEN (IF a = b THEN Judge(L, A, B, i + 1, known)
                     ELSE [clause |-> "OtherTextChanged", known |-> known])
          ELSE IF a \in L
               THEN LET v == IF b = a /\ a \in DOMAIN known /\ known[a] # a
                             THEN "ListedNumberNotReplaced"     \* the functional clause, named for this frequent case
                             ELSE ReplVerdict(a, b, known) IN
                    IF v # "ok" THEN [clause |-> v, known |-> known]
                    ELSE Judge(L, A, B, i + 1, Learn(known, a, b))
          ELSE IF Norm(a) \in L THEN Judge(L, A, B, i + 1, known)      \* leading zeros: don't-care
          ELSE IF a = b THEN Judge(L, A, B, i + 1, known)
          ELSE [clause |-> "UnlistedNumberChanged", known |-> known]

LineVerdict(L, in, out, known) ==
  IF OutOfScopeLine(in) THEN [clause |-> "ok", known |-> known]
  ELSE LET A == Segs(in)
           B == Segs(out)
       IN IF Len(A) # Len(B) THEN [clause |-> "StructureChanged", known |-> known]
          ELSE Judge(L, A, B, 1, known)

\* the one output R admits once the map is known (used to show R is not too weak)
RECURSIVE ExpectedFrom(_, _, _, _)
ExpectedFrom(L, A, i, known) ==
  IF i > Len(A) THEN << >>
  ELSE (IF A[i] \in L /\ A[i] \in DOMAIN known THEN known[A[i]] ELSE A[i]) \o ExpectedFrom(L, A, i + 1, known)
Expected(L, line, known) == ExpectedFrom(L, Segs(line), 1, known)

\* ---- M: netconan's arithmetic and scanning (small scaled tables only) -------
RECURSIVE ToNat(_)
ToNat(s) == IF Len(s) = 0 THEN 0 ELSE 10 * ToNat(SubSeq(s, 1, Len(s) - 1)) + s[Len(s)]
RECURSIVE ToDigits(_)
ToDigits(k) == IF k < 10 THEN <<k>> ELSE Append(ToDigits(k \div 10), k % 10)
Min(S) == CHOOSE x \in S : \A y \in S : x <= y
BN(i) == ToNat(Bounds[i])

\* named deviations (each is a realistic slip; "none" is the code as it stands)
ReplDeviations == {"SizePlusOne", "BoundaryLe", "ModNextBegin", "NoBlockOffset"}
ScanDeviations == {"NoLookbehind", "NoLookahead", "AtomicAlternation", "FirstMatchOnly", "DigitBeyondPunct"}
\* DigitBeyondPunct: no match when the neighbour is ONE non-digit character with a digit beyond it
\* ("1.65001", "65001.1" taken for parts of a dotted number)

MRepl(d, n, h) ==
  LET k     == ToNat(n)
      Below(j) == IF d = "BoundaryLe" THEN k <= BN(j) ELSE k < BN(j)
      i     == Min({j \in 1..NB : Below(j)})
      begin == IF i = 1 THEN 0 ELSE BN(i - 1)
      size  == BN(i) - begin
  IN ToDigits(IF d = "SizePlusOne" THEN (h % (size + 1)) + begin
              ELSE IF d = "ModNextBegin" THEN h % BN(i)
              ELSE IF d = "NoBlockOffset" THEN h % size
              ELSE (h % size) + begin)

\* The replacement map of ONE anonymizer built for `list` (numbers in the order given).
\* Code as it stands: every number on its own.  Deviation "AvoidCollisions": the map is built in
\* list order and a number whose replacement is already taken by an EARLIER listed number is
\* re-hashed (next candidate h+3, h+6, ...) - so the answer depends on the rest of the list and on
\* its order; an anonymizer for the single number (or any list without that neighbour) answers
\* differently, which is what R's map learned across anonymizers rejects.
MapDeviations == {"AvoidCollisions"}
RECURSIVE AvoidFrom(_, _, _, _)
AvoidFrom(list, i, h, acc) ==
  IF i > Len(list) THEN acc
  ELSE LET n       == list[i]
           taken   == {acc[m] : m \in DOMAIN acc}
           Cand(a) == MRepl("none", n, h + 3 * a)
           free    == {a \in 0..3 : Cand(a) \notin taken}
           r       == IF n \in DOMAIN acc THEN acc[n]
                      ELSE IF free = {} THEN Cand(3) ELSE Cand(Min(free))
       IN AvoidFrom(list, i + 1, h, (n :> r) @@ acc)
MMap(d, list, h) ==
  IF d = "AvoidCollisions" THEN AvoidFrom(list, 1, h, << >>)
  ELSE [n \in {list[i] : i \in 1..Len(list)} |-> MRepl(d, n, h)]

\* list: the listed numbers in the order given (alternation order); rep: this anonymizer's map
RECURSIVE MScan(_, _, _, _, _, _)
MScan(d, list, line, p, rep, fired) ==
  IF p > Len(line) THEN << >>
  ELSE LET before   == /\ d = "NoLookbehind" \/ p = 1 \/ ~IsDig(line[p - 1])
                       /\ ~(d = "DigitBeyondPunct" /\ p > 2 /\ ~IsDig(line[p - 1]) /\ IsDig(line[p - 2]))
           End(k)   == p + Len(list[k]) - 1
           Pref(k)  == End(k) <= Len(line) /\ SubSeq(line, p, End(k)) = list[k]
           After(k) == /\ d = "NoLookahead" \/ End(k) = Len(line) \/ ~IsDig(line[End(k) + 1])
                       /\ ~(d = "DigitBeyondPunct" /\ End(k) + 2 <= Len(line)
                            /\ ~IsDig(line[End(k) + 1]) /\ IsDig(line[End(k) + 2]))
           pm       == {k \in 1..Len(list) : Pref(k)}
           hits     == IF d = "AtomicAlternation"
                       THEN (IF pm # {} /\ After(Min(pm)) THEN {Min(pm)} ELSE {})
                       ELSE {k \in pm : After(k)}
           enabled  == before /\ hits # {} /\ ~(d = "FirstMatchOnly" /\ fired)
       IN IF enabled
          THEN LET k == Min(hits) IN rep[list[k]] \o MScan(d, list, line, End(k) + 1, rep, TRUE)
          ELSE <<line[p]>> \o MScan(d, list, line, p + 1, rep, fired)
MOut(d, list, line, h) == MScan(d, list, line, 1, MMap(d, list, h), FALSE)
=============================================================================
