CONSTANT Space = "decision"
SPECIFICATION Spec
INVARIANT TypeOK
INVARIANT WriteOnlyWhenRun
INVARIANT DoneAccepted
INVARIANT CallIsParams
INVARIANT RunCallsLibrary
CHECK_DEADLOCK FALSE
