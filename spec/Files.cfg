CONSTANTS Dirs = {0, 1, 2, 3}  DotDir = 3  Names = {"a", "b", "sp", "uni", "dot"}
          MaxFiles = 2  WithEnv = TRUE  WithSingle = TRUE
SPECIFICATION RSpec
INVARIANTS TypeOK OneToOne NothingElseWritten InputsUntouched ErrorsNamed Isolation
PROPERTY PickForms
CHECK_DEADLOCK FALSE
