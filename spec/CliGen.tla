------------------------------- MODULE CliGen -------------------------------
(***************************************************************************)
(* C19 - TLC enumerates the option vectors that the harness runs through   *)
(* the real main().  Every vector (one TLC state) is appended as one JSON  *)
(* line to OUT_FILE together with R's decision, R's library parameters and *)
(* M's predicted observation.                                              *)
(*                                                                         *)
(* Families (Tier = "quick" uses the reduced sets, "thorough" the full):   *)
(*  place  every option in every <<cli, cfg>> placement with every value,  *)
(*         the other options as in one of five base vectors (both tiers)   *)
(*  pairs  every pair of options in every pair of placements around the    *)
(*         all-features base (quick: representative placements only;       *)
(*         thorough: additionally representative placements around BaseMin)*)
(*  table  the validation table: all combinations of the effective values  *)
(*         of the options that decide (a u p s d hb w n i o), each placed  *)
(*         uniformly (all on the command line / all in the config file /   *)
(*         flags here and values there)                                    *)
(*  spell  every option in every legal spelling (long, long=, short, glued *)
(*         short, abbreviation, abbreviation=), alone and over an equal /  *)
(*         conflicting config-file value of the same option                *)
(*  feat   every subset of the features a p w n (u) x one further option   *)
(*         (r pp pa pv hb s d) with each of its values: is it forwarded    *)
(*         whatever else is switched on (e.g. -r with and without -w)      *)
(*  walk   (simulation mode, Family = "walk") random walks changing one    *)
(*         option placement + spelling per step, from the base vectors     *)
(***************************************************************************)
EXTENDS CliM, Json, IOUtils

CONSTANTS Tier, Family, Depth
VARIABLES vec, steps
gvars == <<vec, steps>>

\* a placement is <<cli, cfg>> (spelling left to the harness: "any") or <<cli, cfg, spelling>>
Mk(pl) == [cli |-> [o \in Opts |-> pl[o][1]], cfg |-> [o \in Opts |-> pl[o][2]],
           sp  |-> [o \in Opts |-> IF Len(pl[o]) = 3 THEN pl[o][3]
                                   ELSE IF pl[o][1] = None THEN None ELSE "any"]]
States(o) == {<<c, f>> : c \in CliVals(o), f \in CfgVals(o)}
\* representative placements: absent, cli, cfg, both with the command line differing
Reduced(o) ==
  CASE o \in Flags -> {<<None, None>>, <<"on", None>>, <<None, "true">>, <<"on", "false">>}
    [] o = "i"  -> {<<None, None>>, <<"in1", None>>, <<None, "in1">>, <<"in2", "in1">>, <<"in1", "EMPTY">>}
    [] o = "o"  -> {<<None, None>>, <<"out1", None>>, <<None, "out1">>, <<"out2", "out1">>, <<"EMPTY", "out1">>}
    [] o = "s"  -> {<<None, None>>, <<"s1", None>>, <<None, "s1">>, <<"s2", "s1">>,
                    <<"EMPTY", None>>, <<None, "EMPTY">>, <<"EMPTY", "s1">>}
    [] o = "d"  -> {<<None, None>>, <<"map1", None>>, <<None, "map1">>, <<"map2", "map1">>}
    [] o = "w"  -> {<<None, None>>, <<"w1", None>>, <<None, "w1">>, <<"w2", "w1">>}
    [] o = "n"  -> {<<None, None>>, <<"n1", None>>, <<None, "n1">>, <<"n2", "n1">>}
    [] o = "r"  -> {<<None, None>>, <<"r1", None>>, <<None, "r1">>, <<"r2", "r1">>, <<"r3", None>>, <<None, "r3">>}
    [] o = "pp" -> {<<None, None>>, <<"pp1", None>>, <<None, "ppdef">>, <<"pp2", "pp1">>}
    [] o = "pa" -> {<<None, None>>, <<"pa1", None>>, <<None, "parfc">>, <<"pamix", "pa1">>, <<"pa1", "pamix">>}
    [] o = "hb" -> {<<None, None>>, <<"h0", None>>, <<None, "h0">>, <<"h0", "h17">>, <<None, "h17">>,
                    <<"h8", "h33">>, <<"h33", "h8">>, <<"h32", "h0">>}

NoPl == [o \in Opts |-> <<None, None>>]
BaseCli  == [NoPl EXCEPT !["a"] = <<"on", None>>, !["p"] = <<"on", None>>, !["s"] = <<"s1", None>>,
                         !["w"] = <<"w1", None>>, !["n"] = <<"n1", None>>, !["r"] = <<"r1", None>>,
                         !["i"] = <<"in1", None>>, !["o"] = <<"out1", None>>]
BaseCfg  == [NoPl EXCEPT !["a"] = <<None, "true">>, !["p"] = <<None, "true">>, !["s"] = <<None, "s1">>,
                         !["w"] = <<None, "w1">>, !["n"] = <<None, "n1">>, !["r"] = <<None, "r1">>,
                         !["i"] = <<None, "in1">>, !["o"] = <<None, "out1">>]
BaseUndo == [NoPl EXCEPT !["u"] = <<"on", None>>, !["s"] = <<None, "s1">>, !["w"] = <<"w2", None>>,
                         !["i"] = <<"in2", None>>, !["o"] = <<None, "out2">>]
BaseMin  == [NoPl EXCEPT !["a"] = <<None, "true">>, !["s"] = <<"s2", None>>,
                         !["i"] = <<"in1", None>>, !["o"] = <<None, "out1">>, !["d"] = <<"map1", None>>]
\* no anonymization option at all: its neighbourhood is the NoOutput region
BaseNone == [NoPl EXCEPT !["s"] = <<"s1", None>>, !["r"] = <<None, "r1">>, !["pv"] = <<"on", None>>,
                         !["i"] = <<None, "in1">>, !["o"] = <<"out1", None>>]
Bases     == {BaseCli, BaseCfg, BaseUndo, BaseMin, BaseNone}

PlaceSet == UNION {UNION {{[x \in Opts |-> IF x = o THEN st ELSE b[x]] : st \in States(o)} : o \in Opts} : b \in Bases}
PairsOn(b, P(_)) == UNION {UNION {
               {[x \in Opts |-> IF x = o1 THEN s1 ELSE IF x = o2 THEN s2 ELSE b[x]] : s1 \in P(o1), s2 \in P(o2)}
               : o2 \in {y \in Opts : y # o1}} : o1 \in Opts}
\* quick: representative placements around BaseCli; thorough: all placements
\* around BaseCli and the representative ones around BaseMin
PairSet  == IF Tier = "quick" THEN PairsOn(BaseCli, Reduced)
            ELSE PairsOn(BaseCli, States) \cup PairsOn(BaseMin, Reduced)

\* validation table: effective values, then a uniform placement
TFlag == {None, "on"}
THb   == IF Tier = "quick" THEN {None, "m1", "h0", "h32", "h33"} ELSE {None} \cup Dom["hb"]
TSalt == IF Tier = "quick" THEN {None, "s1"} ELSE {None, "s1", "EMPTY"}
TIn   == IF Tier = "quick" THEN {None, "in1"} ELSE {None, "in1", "EMPTY"}
TOut  == IF Tier = "quick" THEN {None, "out1"} ELSE {None, "out1", "EMPTY"}
Uniform == IF Tier = "quick" THEN {"cli", "cfg"} ELSE {"cli", "cfg", "flags-cli", "flags-cfg"}
PlaceEff(o, e, u) ==
  IF e = None THEN <<None, None>>
  ELSE LET onCli == u = "cli" \/ (u = "flags-cli" /\ o \in Flags) \/ (u = "flags-cfg" /\ o \in Valued)
       IN IF onCli THEN <<e, None>> ELSE <<None, IF o \in Flags THEN "true" ELSE e>>
TableSet ==
  { [x \in Opts |-> IF x \in DOMAIN t THEN PlaceEff(x, t[x], u) ELSE <<None, None>>] :
      t \in [a : TFlag, u : TFlag, p : TFlag, s : TSalt, d : {None, "map1"}, hb : THb,
             w : {None, "w1"}, n : {None, "n1"}, i : TIn, o : TOut],
      u \in Uniform }

\* spell: every option in every spelling, alone and over a config-file value of the
\* same option (equal and conflicting), around the all-features base(s)
SpellVals(o) == IF o \in Flags THEN {"on"}
                ELSE IF Tier = "quick" THEN {CHOOSE x \in Dom[o] : x \notin {"EMPTY", "m1", "h33"}} \cup
                                            (IF o \in {"s", "i", "o"} THEN {"EMPTY"} ELSE {})
                ELSE Dom[o]
SpellBases == IF Tier = "quick" THEN {BaseCli} ELSE {BaseCli, BaseCfg, BaseUndo}
SpellSet == UNION {UNION {
              {[x \in Opts |-> IF x = o THEN <<t[1], t[2], t[3]>> ELSE b[x]] :
                 t \in {q \in SpellVals(o) \X CfgVals(o) \X Spells(o) : ~(q[3] = "glued" /\ q[1] = "EMPTY")}}
              : o \in Opts} : b \in SpellBases}
\* feat: every subset of the features x one further option with each of its values:
\* is the option forwarded whatever else is switched on?
FeatSets == {t \in [a : TFlag, p : TFlag, w : {None, "w1"}, n : {None, "n1"}, u : TFlag] :
               /\ ~(t.a = "on" /\ t.u = "on")
               /\ (t.a = "on" \/ t.p = "on" \/ t.u = "on" \/ t.w # None \/ t.n # None)}
FeatExtra == {<<"r", x>> : x \in Dom["r"]} \cup {<<"pp", x>> : x \in Dom["pp"]} \cup {<<"pa", x>> : x \in Dom["pa"]}
             \cup {<<"pv", "on">>} \cup {<<"hb", x>> : x \in {"h0", "h17", "h32"}} \cup {<<"s", "s2">>, <<"s", "EMPTY">>}
             \cup {<<"d", "map1">>}
FeatSet == { [x \in Opts |->
               IF x = e[1] THEN PlaceEff(x, e[2], u)
               ELSE IF x \in DOMAIN t THEN PlaceEff(x, t[x], "cli")
               ELSE IF x = "s" THEN <<"s1", None>> ELSE IF x = "i" THEN <<"in1", None>>
               ELSE IF x = "o" THEN <<None, "out1">> ELSE <<None, None>>] :
             t \in FeatSets, e \in FeatExtra, u \in (IF Tier = "quick" THEN {"cli"} ELSE {"cli", "cfg"}) }

FamilySet == CASE Family = "place" -> PlaceSet
               [] Family = "pairs" -> PairSet
               [] Family = "table" -> TableSet
               [] Family = "spell" -> SpellSet
               [] Family = "feat"  -> FeatSet
               [] Family = "all"   -> PlaceSet \cup PairSet \cup TableSet \cup SpellSet \cup FeatSet
               [] Family = "walk"  -> Bases

Init == /\ \E pl \in FamilySet : vec = Mk(pl)
        /\ steps = 0
\* simulation only: change the placement of one option
\* (RandomElement: exactly one successor per step, so that a simulation run
\* emits its own states only and not every neighbour of them; bound through a
\* singleton set because TLC re-evaluates a LET definition at every use)
Moves == UNION {{<<o, q[1], q[2]>> :
                   q \in {z \in States(o) \X (Spells(o) \cup {"any", None}) :
                            IF z[1][1] = None THEN z[2] = None
                            ELSE z[2] # None /\ ~(z[2] = "glued" /\ z[1][1] = "EMPTY")}}
                : o \in Opts}
Next == /\ Family = "walk" /\ steps < Depth
        /\ \E m \in {RandomElement(Moves)} :
              vec' = [cli |-> [vec.cli EXCEPT ![m[1]] = m[2][1]], cfg |-> [vec.cfg EXCEPT ![m[1]] = m[2][2]],
                      sp  |-> [vec.sp EXCEPT ![m[1]] = m[3]]]
        /\ steps' = steps + 1
Spec == Init /\ [][Next]_gvars

Rec(v) == [ cli |-> v.cli, cfg |-> v.cfg, sp |-> v.sp,
            decision |-> Decision(v), reasons |-> Reasons(v),
            may |-> (MayReject(v) /\ ~MustReject(v)),
            comparable |-> Comparable(v),
            params |-> IF Decision(v) = "Run" THEN Params(v) ELSE [none |-> TRUE],
            m_outcome |-> MOutcome(v), m_created |-> MCreated(v) ]
Emit == Serialize(ToJson(Rec(vec)) \o "\n", IOEnv.OUT_FILE,
                  [format |-> "TXT", charset |-> "UTF-8",
                   openOptions |-> <<"WRITE", "CREATE", "APPEND">>]).exitValue = 0
GenTypeOK == WellFormed(vec)
=============================================================================
