CONSTANTS
  Bounds <- SmallBounds
  Lists <- ListsArith
  Lines <- LinesArith
  Hashes <- HashesArith
  MaxLen = 0
  MaxList = 1
  NumLen = 1
SPECIFICATION Spec
INVARIANT MImpliesR
INVARIANT RDeterminate
INVARIANT LearnsMap
CHECK_DEADLOCK FALSE
