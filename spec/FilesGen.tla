------------------------------ MODULE FilesGen ------------------------------
(***************************************************************************)
(* Scenario generator for C16: TLC runs the M machine (FilesImpl) over     *)
(* EVERY scenario of the configured scope and appends one JSON line per    *)
(* completed behaviour to OUT_FILE: the tree, the fault assignment, the    *)
(* environment, and M's predicted outcome of every file.  The harness      *)
(* materialises each line on disk and runs the real entry points on it.    *)
(***************************************************************************)
EXTENDS FilesImpl, Json, IOUtils

Row(k) == [dir |-> k[1], name |-> k[2], fault |-> scn.fault[k],
           pred |-> PredOut(k), prep |-> (k \in rep["faulty"])]
Line == [mode |-> scn.mode, pre |-> scn.pre, esub |-> scn.esub,
         files |-> {Row(k) : k \in scn.files}]
Emit == MDone =>
          Serialize(ToJson(Line) \o "\n", IOEnv.OUT_FILE,
                    [format |-> "TXT", charset |-> "UTF-8",
                     openOptions |-> <<"WRITE", "CREATE", "APPEND">>]).exitValue = 0
=============================================================================
