CONSTANT Space = "params"
SPECIFICATION Spec
INVARIANT TypeOK
INVARIANT WriteOnlyWhenRun
INVARIANT DoneAccepted
INVARIANT CallIsParams
INVARIANT RunCallsLibrary
CHECK_DEADLOCK FALSE
