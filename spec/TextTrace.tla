------------------------------ MODULE TextTrace ------------------------------
(***************************************************************************)
(* Trace validation of address substitution in text against AddrText (the  *)
(* scanner / output rule) and PrefixMap (which address replaces which).    *)
(*                                                                         *)
(*   cfg   on4 on6 undo ps4 ps6 pins4 nets4 clauses                        *)
(*   mode  undo            the following lines come from a further run     *)
(*                         (same salt and options) that anonymizes / undoes *)
(*   line  in out          one line went through the address stage(s)      *)
(*   anon / deanon  fam x y   integer API call on an anonymizer with the   *)
(*                            same salt and options (ties text to the map) *)
(*   dump  fam pairs bad      the map file written by --dump-ip-map for    *)
(*                            one family: must list every pair that was    *)
(*                            used in the lines, each original and each    *)
(*                            replacement once, all consistent with the map*)
(*   exc   what                                                            *)
(* Text is a sequence of code points; x, y are bit sequences.              *)
(***************************************************************************)
EXTENDS AddrText, Json, IOUtils

Trace == ndJsonDeserialize(IOEnv.TRACE_FILE)
N     == Len(Trace)

VARIABLES l, skip, cls,
          on4, on6, undo,
          ps4, pins4, nets4, obs4,
          ps6, obs6,
          txt4, txt6      \* pairs seen as <<token, replacement>> in the lines of this configuration (for the dump check)
tvars == <<l, skip, cls, on4, on6, undo, ps4, pins4, nets4, obs4, ps6, obs6, txt4, txt6>>

V4 == INSTANCE PrefixMap WITH w <- 32, ps <- ps4, pins <- pins4, nets <- nets4, flip <- << >>,
                               keyed <- TRUE, obs <- obs4, MaxW <- 32, MaxPins <- 0, LemmaPairs <- 0
V6 == INSTANCE PrefixMap WITH w <- 128, ps <- ps6, pins <- {}, nets <- {}, flip <- << >>,
                               keyed <- TRUE, obs <- obs6, MaxW <- 128, MaxPins <- 0, LemmaPairs <- 0

ToSet(s) == {s[i] : i \in 1..Len(s)}

\* Two kinds of observation live in obs4.  A MAP pair <<x, Img(x)>> comes from a replaced token or an integer-API
\* call (the API hashes the host part even inside a preserved network).  A KEPT pair <<k, k>> comes from a token of a
\* preserved network that the text stage left alone.  The run's text-level mapping is "kept inside the preserved
\* networks, Img outside"; it preserves common-prefix lengths because preserved networks are pinned prefixes.  So
\* kept pairs are compared with the pairs whose original lies outside the preserved networks (and trivially with
\* each other), MAP pairs with an original inside a preserved network (API only) with all MAP pairs.
InNets4(x) == \E n \in nets4 : V4!IsPrefixOf(n, x)
KeptObs(o) == o[1] = o[2] /\ InNets4(o[1])
Against4(x, y, S) == IF ~InNets4(x) THEN S
                     ELSE IF x = y THEN {o \in S : ~InNets4(o[1])}
                     ELSE {o \in S : ~KeptObs(o)}
\* verdict of one <<original, image>> pair of family f against history S
PairVerdict(f, x, y, S) ==
  IF f = 4 THEN
    (IF "Suffix" \in cls /\ ~V4!PairSuffix(x, y) THEN "Suffix"
     ELSE IF "Pins" \in cls /\ ~V4!PairPins(x, y) THEN "Pins"
     ELSE IF "Nets" \in cls /\ ~V4!PairNets(x, y) THEN "Nets"
     ELSE IF "Consistent" \in cls /\ ~V4!PairConsistent(x, y, Against4(x, y, S)) THEN "Consistent"
     ELSE "ok")
  ELSE
    (IF "Suffix" \in cls /\ ~V6!PairSuffix(x, y) THEN "Suffix"
     ELSE IF "Consistent" \in cls /\ ~V6!PairConsistent(x, y, S) THEN "Consistent"
     ELSE "ok")

Kept4(x) == IsMaskBits(x) \/ \E n \in nets4 : V4!IsPrefixOf(n, x)

\* fold over the aligned <<token, replacement>> pairs of one line:
\* result <<verdict, obs4', obs6'>>
RECURSIVE Judge(_, _, _)
Judge(ps_, o4, o6) ==
  IF ps_ = << >> THEN <<"ok", o4, o6>>
  ELSE
    LET p == ps_[1] IN
    IF p.fam = 4 THEN
      LET tv == Bits4(p.tok) IN
      IF Kept4(tv) THEN
        (IF "Kept" \in cls /\ p.rep # p.tok THEN <<"Kept", o4, o6>>
         \* an address of a preserved network that was left alone is an observation <<x, x>> of the run's mapping
         \* (preserved networks are pinned prefixes in PrefixMap): it must be consistent with everything else
         ELSE IF p.rep = p.tok /\ ~IsMaskBits(tv) THEN
              LET v == PairVerdict(4, tv, tv, o4) IN
              IF v # "ok" THEN <<v, o4, o6>> ELSE Judge(Tail(ps_), o4 \cup {<<tv, tv>>}, o6)
         ELSE Judge(Tail(ps_), o4, o6))
      ELSE IF ~Valid4(p.rep) THEN <<"Replacement4Invalid", o4, o6>>
      ELSE IF "Spelling" \in cls /\ ~Plain4(p.rep) THEN <<"Spelling", o4, o6>>
      ELSE LET rv == Bits4(p.rep)
               x  == IF undo THEN rv ELSE tv
               y  == IF undo THEN tv ELSE rv
               v  == PairVerdict(4, x, y, o4) IN
           IF v # "ok" THEN <<v, o4, o6>> ELSE Judge(Tail(ps_), o4 \cup {<<x, y>>}, o6)
    ELSE
      LET tv == Bits6(p.tok) IN
      IF ~Valid6(p.rep) THEN <<"Replacement6Invalid", o4, o6>>
      ELSE IF "Spelling" \in cls /\ ~Plain6(p.rep) THEN <<"Spelling", o4, o6>>
      ELSE LET rv == Bits6(p.rep)
               x  == IF undo THEN rv ELSE tv
               y  == IF undo THEN tv ELSE rv
               v  == PairVerdict(6, x, y, o6) IN
           IF v # "ok" THEN <<v, o4, o6>> ELSE Judge(Tail(ps_), o4, o6 \cup {<<x, y>>})

LineVerdict(e) ==
  IF on6 /\ DontCare(e.in) THEN <<"ok", obs4, obs6>>
  ELSE LET A == Align(e.in, e.out, on4, on6) IN
       IF ~A[1] THEN <<"Structure", obs4, obs6>> ELSE Judge(A[2], obs4, obs6)

TraceInit ==
  /\ l = 1 /\ skip = 0 /\ cls = {} /\ on4 = FALSE /\ on6 = FALSE /\ undo = FALSE
  /\ ps4 = 0 /\ pins4 = {} /\ nets4 = {} /\ obs4 = {} /\ ps6 = 0 /\ obs6 = {}
  /\ txt4 = {} /\ txt6 = {}

\* a rejected line / call changes nothing; the following events are still judged
\* (lines are independent of each other except through the learned map)
Reject(e, c) ==
  /\ PrintT(<<"FAIL", e.tid, l, c>>)
  /\ skip' = e.tid
  /\ UNCHANGED <<cls, on4, on6, undo, ps4, pins4, nets4, obs4, ps6, obs6, txt4, txt6>>

StepCfg(e) ==
  /\ on4' = e.on4 /\ on6' = e.on6 /\ undo' = e.undo
  /\ ps4' = e.ps4 /\ ps6' = e.ps6 /\ pins4' = ToSet(e.pins4) /\ nets4' = ToSet(e.nets4)
  /\ obs4' = {} /\ obs6' = {} /\ cls' = ToSet(e.clauses) /\ skip' = 0 /\ txt4' = {} /\ txt6' = {}

StepLine(e) ==
  LET r == LineVerdict(e) IN
  IF r[1] # "ok" THEN Reject(e, r[1])
  ELSE /\ obs4' = r[2] /\ obs6' = r[3]
       /\ txt4' = txt4 \cup {o \in r[2] \ obs4 : ~KeptObs(o)} /\ txt6' = txt6 \cup (r[3] \ obs6)
       /\ UNCHANGED <<skip, cls, on4, on6, undo, ps4, pins4, nets4, ps6>>

StepApi(e) ==
  LET v == PairVerdict(e.fam, e.x, e.y, IF e.fam = 4 THEN obs4 ELSE obs6) IN
  IF v # "ok" THEN Reject(e, v)
  ELSE /\ obs4' = (IF e.fam = 4 THEN obs4 \cup {<<e.x, e.y>>} ELSE obs4)
       /\ obs6' = (IF e.fam = 6 THEN obs6 \cup {<<e.x, e.y>>} ELSE obs6)
       /\ UNCHANGED <<skip, cls, on4, on6, undo, ps4, pins4, nets4, ps6, txt4, txt6>>

DumpVerdict(e) ==
  LET P == e.pairs
      PS_ == ToSet(P)
      used == IF e.fam = 4 THEN txt4 ELSE txt6
      S == IF e.fam = 4 THEN obs4 ELSE obs6 IN
  IF e.bad # << >> THEN "DumpFormat"
  ELSE IF \E i, j \in 1..Len(P) : i < j /\ (P[i][1] = P[j][1] \/ P[i][2] = P[j][2]) THEN "DumpDuplicate"
  ELSE IF ~(used \subseteq PS_) THEN "DumpMissing"
  ELSE IF \E q \in PS_ : PairVerdict(e.fam, q[1], q[2], S \cup PS_) # "ok" THEN "DumpInconsistent"
  ELSE "ok"
StepDump(e) ==
  LET v == DumpVerdict(e) IN
  IF v # "ok" THEN Reject(e, v)
  ELSE UNCHANGED <<skip, cls, on4, on6, undo, ps4, pins4, nets4, obs4, ps6, obs6, txt4, txt6>>

TraceNext ==
  /\ l <= N /\ l' = l + 1
  /\ LET e == Trace[l] IN
     IF e.ev = "cfg" THEN StepCfg(e)
     ELSE IF e.ev = "mode" THEN          \* a further run with the same salt and options, anonymize or undo
            /\ undo' = e.undo
            /\ UNCHANGED <<skip, cls, on4, on6, ps4, pins4, nets4, obs4, ps6, obs6, txt4, txt6>>
     ELSE IF e.ev = "line" THEN StepLine(e)
     ELSE IF e.ev \in {"anon", "deanon"} THEN StepApi(e)
     ELSE IF e.ev = "dump" THEN StepDump(e)
     ELSE Reject(e, "Exception")
TraceSpec == TraceInit /\ [][TraceNext]_tvars
Done == l = N + 1 => PrintT(<<"DONE", N>>)
=============================================================================
