------------------------------- MODULE AdvGen -------------------------------
(***************************************************************************)
(* Adversarial line generator for totality (C14).  A line is a keyword     *)
(* frame with <= MaxSlots slots, each filled from an adversarial           *)
(* vocabulary (token ids; the harness maps ids to text, because the texts  *)
(* contain backslashes, control characters and very long runs).  TLC       *)
(* enumerates frame x fillings x salt class x feature set.                 *)
(***************************************************************************)
EXTENDS Naturals, Sequences, FiniteSets, TLC, Json, IOUtils
CONSTANTS MaxSlots, Level    \* Level 1: core vocabulary, 2: everything

Core == {"bs_n", "bs_1", "bs_g", "bs_d", "bs_end", "paren", "star", "md5_salt9", "md5_salt0", "md5_nohash",
         "j9_short", "j9_foreign", "j9_valid", "md5_emptysalt", "md5_emptysalt2", "md5_dollars", "j9_underscore", "j9_nonascii", "sha_longsalt", "sha_rounds_big", "fe80_pct", "fe80_1_pct", "brk_2000", "quote_10", "empty", "uni", "plainword", "num7",
         "d1", "dx", "d6", "d_only", "two", "turkic_i"}
More == {"bs_b", "class_open", "plusq", "dollar", "caret", "dotstar", "brace1", "pipe", "md5_salt10", "md5_only", "j9_trunc", "j9_magic",
         "sha_bare", "sha_rounds", "v6_tail3", "colons3", "dc2", "brk_1", "brk_10", "nest_1500", "ctrl0", "ctrl1f", "ls2028", "nbsp", "long5000",
         "type7", "hexval", "v4addr", "v6addr", "asnum", "word", "d9", "one", "d1d", "dd", "long_s"}
Vocab == IF Level = 1 THEN Core ELSE Core \cup More
Frames == {"none", "password", "key", "community", "enable-secret-5", "username", "encrypted-password", "set-community", "key-quoted", "psk-xml",
           "ppp-hostname", "tacacs-host-key", "snmp-user-auth", "syscon-address", "juniper-snmp-community"}   \* user text inside the kept prefix
SaltClasses == {"empty", "hash", "inalpha", "nonascii"}
FeatureSets == {<<"pwd">>, <<"ip">>, <<"pwd", "ip", "word", "as">>, <<"word", "as">>, <<"pwd", "word">>, <<"ip", "undo">>}

VARIABLES c
Init == \E f \in Frames, sc \in SaltClasses, fs \in FeatureSets :
          c = [frame |-> f, slots |-> << >>, salt |-> sc, feats |-> fs, done |-> FALSE]
Next == /\ ~c.done
        /\ \/ Len(c.slots) < MaxSlots /\ \E v \in Vocab : c' = [c EXCEPT !.slots = Append(@, v)]
           \/ Len(c.slots) >= 1 /\ c' = [c EXCEPT !.done = TRUE]
Spec == Init /\ [][Next]_c
Emit == ~c.done \/ Serialize(ToJson(c) \o "\n", IOEnv.OUT_FILE,
                   [format |-> "TXT", charset |-> "UTF-8", openOptions |-> <<"WRITE", "CREATE", "APPEND">>]).exitValue = 0
=============================================================================
