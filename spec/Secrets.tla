------------------------------- MODULE Secrets -------------------------------
(***************************************************************************)
(* R-module for secret substitution within one run (C07, C08, C09).        *)
(*                                                                         *)
(* The only state is  lookup : secret key -> pseudonym  - an injective     *)
(* function that grows.  A secret's KEY is what C08 calls "the same        *)
(* secret": the plaintext of a valid Juniper $9$ string, otherwise the     *)
(* value itself without its enclosing text.  A PSEUDONYM is the decoded    *)
(* replacement (a $9$ replacement is decrypted first), so that any naming  *)
(* scheme is accepted.  Keys and pseudonyms are opaque values here.        *)
(*                                                                         *)
(* One occurrence of a secret in an output line is acceptable iff          *)
(*   Consistent   its key is known  => the pseudonym is lookup[key]        *)
(*   Injective    its key is new    => the pseudonym is not in use         *)
(*   ClassKept    the replacement has the secret's format class (and the   *)
(*                md5 salt length)                                  (C09)  *)
(*   ContextKept  enclosing text and the rest of the line are unchanged    *)
(*                                                                  (C09)  *)
(*   Replaced     the position no longer holds the secret           (C07)  *)
(***************************************************************************)
EXTENDS Naturals, Sequences, FiniteSets, TLC

CONSTANTS Keys, Pseudos          \* finite universes for model checking
VARIABLES lookup
Range(f) == {f[k] : k \in DOMAIN f}

Init == lookup = << >>
OccurOK(k, p) == IF k \in DOMAIN lookup THEN lookup[k] = p ELSE p \notin Range(lookup)
Occur(k, p) == /\ OccurOK(k, p)
               /\ lookup' = IF k \in DOMAIN lookup THEN lookup ELSE (k :> p) @@ lookup
Next == \E k \in Keys, p \in Pseudos : Occur(k, p)
Spec == Init /\ [][Next]_lookup

\* theorems of R (C08): pseudonyms are consistent and collision-free
InjectiveInv == \A a, b \in DOMAIN lookup : lookup[a] = lookup[b] => a = b
GrowOnly     == [][\A k \in DOMAIN lookup : k \in DOMAIN lookup' /\ lookup'[k] = lookup[k]]_lookup
=============================================================================
