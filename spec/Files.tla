------------------------------- MODULE Files -------------------------------
(***************************************************************************)
(* C16 - requirement machine (R) for a run of netconan over files.         *)
(*                                                                         *)
(* "Every non-hidden file under the input directory yields exactly one     *)
(*  output file at the same relative path (a single input file yields the  *)
(*  named output file), nothing else is written, and input files are never *)
(*  modified.  The command line, the directory API, the single-file API    *)
(*  and the in-memory stream API produce identical content, and a file     *)
(*  that cannot be processed is reported and skipped without changing the  *)
(*  output of any other file."                                             *)
(*                                                                         *)
(* Abstract world.  A scenario is a finite set of input files; a file is   *)
(* a kind <<directory, name class>>.  Every file k owns one OUTPUT SLOT    *)
(* (the mirrored path; in single-file mode the named output path).         *)
(* Contents are atomic values compared for equality only (tuples in the    *)
(* model, digests passed as strings in traces of the real code):           *)
(*   in0 / in1   bytes of the input file before / after the run            *)
(*   pre / out   what sits in the slot before / after ("ABSENT", "DIR",    *)
(*               or bytes)                                                 *)
(*   ref         the bytes the in-memory stream API produces for the       *)
(*               file's text  (= the reference all entry points must       *)
(*               reproduce: "entry points agree")                          *)
(*   ifproc      what a successful processing of a FAULTY file would have  *)
(*               to leave (undecodable file: its own bytes, it carries no  *)
(*               sensitive item; occupied output path: ref)                *)
(*   base        the slot after the BASELINE run = same tree, same options,*)
(*               same entry point, without any fault (two-copy product)    *)
(*   reported    the run reported the file (log record or error text       *)
(*               naming it)                                                *)
(*   others0/1   digest of every regular file of the sandbox that is       *)
(*               neither an input file nor a slot, before / after          *)
(*                                                                         *)
(* Don't-care regions (accepted whatever happens):                         *)
(*   - the slot of a file that failed (today an empty file stays behind)   *)
(*   - files below a dot-DIRECTORY (today they are processed)              *)
(*   - directories that are created (only regular files are "written")     *)
(*   - a fault that does not materialise: an implementation able to        *)
(*     process the "faulty" file may do so silently, if the slot then      *)
(*     holds ifproc                                                        *)
(*   - HOW a failure is reported (log level >= WARNING or escaping error)  *)
(*   - extra reports, the order in which files are processed               *)
(* Structural assumption (stated in the evidence): ref is a function of    *)
(* the file alone.  The generated contents make that true for any          *)
(* implementation (every file introduces the same secrets in the same      *)
(* order, so pseudonym numbering cannot depend on the other files).        *)
(***************************************************************************)
EXTENDS Naturals, FiniteSets, Sequences, TLC

\* ---------------------------------------------------------------------------
\* The requirement on one file of one run.  Equality-only, hence usable both
\* on model values and on digests of the real file system.
\* e.tol is a diagnostic switch of the trace module only (see FilesTrace).
\* ---------------------------------------------------------------------------
FileVerdict(e) ==
  IF e.in1 # e.in0 THEN "InputModified"
  ELSE IF e.indot THEN "ok"
  ELSE IF e.hidden THEN (IF e.out = e.pre THEN "ok" ELSE "HiddenFileWritten")
  ELSE IF e.fault # "none"
       THEN (IF e.reported \/ e.out = e.ifproc THEN "ok" ELSE "FailureNotReported")
  ELSE IF e.out = e.ref \/ (e.tol /\ e.out = e.refnl)
       THEN (IF e.base = e.out THEN "ok" ELSE "NotIsolated")
  ELSE IF e.out = e.pre THEN "NotWritten"
  ELSE IF e.out = e.refnl THEN "EntryPointsDifferNewline"
  ELSE IF e.base = e.ref THEN "NotIsolated"
  ELSE "ContentDiffers"

\* Isolation against the tree WITHOUT the failing files (model: FilesIso.tla).
\* Used for trees whose files carry DISTINCT secrets, where the output of a file
\* depends on what was processed before it, so there is no per-file reference:
\*   absent     the slot after the run of the same entry point on the same tree
\*              from which the failing files have been removed
\*   allfailed  every injected fault of this run did fail (was reported); when an
\*              implementation manages to process such a file its secrets may
\*              legitimately take part in the numbering: clause not applicable
\* The failing file's own slot stays a don't-care.
IsoVerdict(e) ==
  IF e.in1 # e.in0 THEN "InputModified"
  ELSE IF e.fault # "none"
       THEN (IF e.reported \/ e.out = e.ifproc THEN "ok" ELSE "FailureNotReported")
  ELSE IF e.out = e.pre THEN "NotWritten"
  ELSE IF e.allfailed /\ e.out # e.absent THEN "IsolationVsAbsent"
  ELSE "ok"

\* "reported and SKIPPED": the run goes on and the call completes - an entry point
\* that documents per-file failures as logged (anonymize_files, main; the repo's own
\* test says "should complete okay, because it skips the errored file") must not let
\* the error escape.  mayraise = TRUE for FileAnonymizer.anonymize_file, whose
\* contract is to raise.  (Trace-level clause: the model has no notion of raising.)
EndVerdict(e) == IF e.others1 # e.others0 THEN "SomethingElseWritten"
                 ELSE IF e.raised /\ ~e.mayraise THEN "CallRaised"
                 ELSE "ok"

\* ---------------------------------------------------------------------------
\* Scenarios
\* ---------------------------------------------------------------------------
CONSTANTS Dirs,        \* directory ids; DotDir is a dot-directory
          DotDir,
          Names,       \* name classes; "dot" = leading dot
          MaxFiles,
          WithEnv,     \* TRUE: pre-existing output / empty sub-directory enumerated too
          WithSingle   \* TRUE: single-file scenarios as well

\* "blocked": the output SUB-DIRECTORY of the file cannot be created because its name
\* (or the name of one of its ancestors below the output root) is taken by a regular
\* file of a pre-existing output directory.  A directory-level fault: it hits every
\* file of that directory and of the directories below it (directory 2 lies below 1).
Faults == {"none", "decode", "outdir", "blocked"}
Below(d, e) == d = 2 /\ e = 1
Copy   == {"base", "faulty"}

\* A leading dot hides a file from the WALK of an input directory only: a file that
\* is named explicitly (single-file mode) "yields the named output file" whatever
\* its name, and the single-file API / stream API know nothing about hidden names.
DotName(k) == k[2] = "dot"
HiddenIn(s, k)  == s.mode = "tree" /\ DotName(k)
InDot(k)   == k[1] = DotDir
VisibleIn(s, k) == ~HiddenIn(s, k) /\ ~InDot(k)
TreeVisible(k)  == ~DotName(k) /\ ~InDot(k)          \* constant-level form for tree scenarios
Kinds      == {k \in Dirs \X Names : InDot(k) => k[2] = "a"}
\* hidden / dot-directory files can be undecodable (binary droppings) but nobody claims their slot
FaultsOf(k) == IF ~TreeVisible(k) THEN {"none", "decode"}
               ELSE IF k[1] = 0 THEN {"none", "decode", "outdir"}    \* the output root itself is never blocked
               ELSE Faults
RECURSIVE UpTo(_)
UpTo(n)    == IF n = 0 THEN {{}} ELSE LET P == UpTo(n - 1) IN P \cup {T \cup {k} : T \in P, k \in Kinds}
Trees      == UpTo(MaxFiles) \ {{}}                  \* every set of 1..MaxFiles kinds
PreOuts    == IF WithEnv THEN {"absent", "empty", "stale"} ELSE {"absent"}
ESubs      == IF WithEnv THEN BOOLEAN ELSE {FALSE}

BlockOK(T, g) == \A k, j \in T : (TreeVisible(k) /\ TreeVisible(j) /\ g[k] = "blocked") =>
                     /\ k[1] = j[1] => g[j] = "blocked"
                     /\ Below(j[1], k[1]) => g[j] = "blocked"
FaultMaps(T) == {g \in [T -> Faults] : (\A k \in T : g[k] \in FaultsOf(k)) /\ BlockOK(T, g)}
\* single-file mode: one file of ANY name class (a leading dot hides nothing here); esub = "parent of the
\* named output is missing"; a stale or occupied slot needs the parent to exist
SingleScenarios ==
  IF ~WithSingle THEN {} ELSE
  {x \in {[mode |-> "single", files |-> {k}, fault |-> (k :> f), pre |-> p, esub |-> s]
            : k \in {y \in Kinds : y[1] = 0}, f \in {"none", "decode", "outdir"},
              p \in {"absent", "stale"}, s \in BOOLEAN} :
     x.esub => (x.pre = "absent" /\ \A k \in x.files : x.fault[k] # "outdir")}

VARIABLES scn,     \* the scenario (never changes)
          outT,    \* [Copy -> [files -> content]]  the slots
          inT,     \* [Copy -> [files -> content]]  the input files
          rep,     \* [Copy -> SUBSET files]        reported files
          left,    \* [Copy -> SUBSET files]        files not yet dealt with
          others   \* [Copy -> content]             everything else in the sandbox
rvars == <<scn, outT, inT, rep, left, others>>
Hidden(k)  == HiddenIn(scn, k)
Visible(k) == VisibleIn(scn, k)

\* everything below is a function of the scenario s
FaultS(s, c, k)  == IF c = "base" THEN "none" ELSE s.fault[k]
InS(s, c, k)     == IF FaultS(s, c, k) = "decode" THEN <<"bad", k>> ELSE <<"in", k>>
RefS(s, c, k)    == IF FaultS(s, c, k) = "decode" THEN <<"NA">> ELSE <<"ref", k>>
PreS(s, c, k)    == IF FaultS(s, c, k) = "outdir" THEN <<"DIR">>
                    ELSE IF FaultS(s, c, k) = "blocked" THEN <<"ABSENT">>   \* nothing can sit below a regular file
                    ELSE IF s.pre = "stale" /\ VisibleIn(s, k) THEN <<"stale", k>>
                    ELSE <<"ABSENT">>
Fault(c, k)  == FaultS(scn, c, k)
In(c, k)     == InS(scn, c, k)
Ref(c, k)    == RefS(scn, c, k)
IfProc(c, k) == IF Fault(c, k) = "decode" THEN In(c, k) ELSE Ref(c, k)
Pre(c, k)    == PreS(scn, c, k)
\* what an implementation might leave in a slot (finite stand-in for "anything")
Outs(c, k) == {Pre(c, k), Ref(c, k), In(c, k), <<"EMPTY">>, <<"ABSENT">>, <<"DIR">>, <<"junk">>}

Rec(c, k, o, r, i1) ==
  [hidden |-> Hidden(k), indot |-> InDot(k), fault |-> Fault(c, k),
   in0 |-> In(c, k), in1 |-> i1, pre |-> Pre(c, k), out |-> o,
   ref |-> Ref(c, k), refnl |-> Ref(c, k), ifproc |-> IfProc(c, k),
   base |-> IF c = "base" THEN o ELSE outT["base"][k],
   reported |-> r, tol |-> FALSE]

\* (the scenario is chosen by a first step rather than in Init: TLC de-duplicates
\*  initial states quadratically - 12 538 initial states took 43 s)
NoScn == [mode |-> "none", files |-> {}, fault |-> << >>, pre |-> "absent", esub |-> FALSE]
RInit ==
  /\ scn = NoScn
  /\ outT = [c \in Copy |-> << >>] /\ inT = [c \in Copy |-> << >>]
  /\ rep  = [c \in Copy |-> {}] /\ left = [c \in Copy |-> {}]
  /\ others = [c \in Copy |-> <<"others">>]
Start(s) ==
  /\ scn' = s
  /\ outT' = [c \in Copy |-> [k \in s.files |-> PreS(s, c, k)]]
  /\ inT'  = [c \in Copy |-> [k \in s.files |-> InS(s, c, k)]]
  /\ left' = [c \in Copy |-> {k \in s.files : ~HiddenIn(s, k)}]   \* no action ever touches a hidden file
  /\ UNCHANGED <<rep, others>>
RPick ==
  /\ scn.mode = "none"
  /\ \/ \E T \in Trees : \E fl \in FaultMaps(T) : \E p \in PreOuts : \E s \in ESubs :
          Start([mode |-> "tree", files |-> T, fault |-> fl, pre |-> p, esub |-> s])
     \/ \E s \in SingleScenarios : Start(s)

\* one file is dealt with, in any order, with ANY outcome the property allows;
\* the baseline copy runs first so that `base` is known
RFile(c, k) ==
  /\ k \in left[c]
  /\ c = "faulty" => left["base"] = {}
  /\ \E o \in Outs(c, k), r \in BOOLEAN :
       /\ FileVerdict(Rec(c, k, o, r, inT[c][k])) = "ok"
       /\ outT' = [outT EXCEPT ![c][k] = o]
       /\ rep'  = IF r THEN [rep EXCEPT ![c] = @ \cup {k}] ELSE rep
  /\ left' = [left EXCEPT ![c] = @ \ {k}]
  /\ UNCHANGED <<scn, inT, others>>
RNext == RPick \/ \E c \in Copy : \E k \in scn.files : RFile(c, k)
RSpec == RInit /\ [][RNext]_rvars

\* The same machine with the choice of the scenario written as a predicate on
\* scn' (same set of scenarios, no enumeration): the refinement target for M -
\* TLC otherwise spends |scenarios| comparisons on every MPick step.
IsScenario(s) ==
  \/ /\ s.mode = "tree" /\ s.files \in Trees /\ s.fault \in FaultMaps(s.files)
     /\ s.pre \in PreOuts /\ s.esub \in ESubs
  \/ s \in SingleScenarios
RPickP == scn.mode = "none" /\ IsScenario(scn') /\ Start(scn')
RNextP == RPickP \/ \E c \in Copy : \E k \in scn.files : RFile(c, k)
RSpecP == RInit /\ [][RNextP]_rvars
\* lemma (checked on RSpec): every enumerated choice satisfies the predicate form
PickForms == [][scn.mode = "none" => RPickP]_rvars

Done == scn.mode # "none" /\ \A c \in Copy : left[c] = {}

\* ---- the property, clause by clause, as theorems of R (checked by TLC) -----
IsBytes(x) == x[1] \in {"ref", "in", "bad", "stale", "junk", "EMPTY"}   \* a regular file
OneToOne ==          \* every visible, processable file: its slot holds exactly the reference bytes
  Done => \A c \in Copy : \A k \in scn.files :
            (Visible(k) /\ Fault(c, k) = "none") => (outT[c][k] = Ref(c, k) /\ IsBytes(outT[c][k]))
NothingElseWritten ==
  /\ \A c \in Copy : others[c] = <<"others">>
  /\ \A c \in Copy : \A k \in scn.files : Hidden(k) => outT[c][k] = Pre(c, k)
InputsUntouched == \A c \in Copy : \A k \in scn.files : inT[c][k] = In(c, k)
ErrorsNamed ==       \* a file that could not be processed is reported
  Done => \A c \in Copy : \A k \in scn.files :
            (Visible(k) /\ Fault(c, k) # "none") => (k \in rep[c] \/ outT[c][k] = IfProc(c, k))
Isolation ==         \* two-copy product: the fault changes no other file's output
  Done => \A k \in scn.files :
            (Visible(k) /\ scn.fault[k] = "none") => outT["faulty"][k] = outT["base"][k]
TypeOK == \A c \in Copy : left[c] \subseteq scn.files /\ rep[c] \subseteq scn.files
=============================================================================
