------------------------------ MODULE AddrText ------------------------------
(***************************************************************************)
(* R-module for addresses in text (C06, text part of C05, file level of    *)
(* C02/C03): an independent scanner written from the property text.        *)
(*                                                                         *)
(* A line is a sequence of code points.                                    *)
(*   IPv4 token = maximal run of ASCII letters, digits and '.'; it is an   *)
(*                address iff it has exactly four parts, each only digits, *)
(*                whose value without leading zeros is <= 255.             *)
(*   IPv6 token = maximal run of ASCII letters, digits and ':'; it is an   *)
(*                address iff it is RFC 4291 text (1-4 hex digits per      *)
(*                group, at most one "::", 8 groups in all).  If the       *)
(*                maximal run over letters, digits, ':' AND '.' is a valid *)
(*                IPv6 address with a dotted-quad tail, that whole run is  *)
(*                the token.                                               *)
(* IPv6 tokens are looked for first; IPv4 tokens are the IPv4 runs that do *)
(* not lie inside an IPv6 token.                                           *)
(*                                                                         *)
(* Output rule: the output line is the input line with every address token *)
(* replaced by a valid, zero-stripped spelling of another address of the   *)
(* same family; every other character is copied.  IPv4 tokens that are     *)
(* netmask/wildcard-shaped or lie in a preserved network are copied as     *)
(* spelled.  Which address a token is replaced by is the business of       *)
(* PrefixMap (the <<token value, replacement value>> pairs are handed to   *)
(* its clauses by TextTrace).                                              *)
(*                                                                         *)
(* Deliberate don't-care (DontCare below): a line in which an IPv6 token   *)
(* that is not a tail form is directly followed by '.' - there the result  *)
(* depends on the image's last group (DESIGN.md 3.2).  A '%zone' after an  *)
(* address is ordinary text outside the token: it must be copied.          *)
(***************************************************************************)
EXTENDS Naturals, Sequences, FiniteSets, TLC

Dot == 46  Colon == 58  Slash == 47
IsDigit(c)  == c \in 48..57
IsLower(c)  == c \in 97..122
IsUpper(c)  == c \in 65..90
IsAlnum(c)  == IsDigit(c) \/ IsLower(c) \/ IsUpper(c)
IsHex(c)    == IsDigit(c) \/ c \in 97..102 \/ c \in 65..70
HexVal(c)   == IF IsDigit(c) THEN c - 48 ELSE IF c \in 97..102 THEN c - 87 ELSE c - 55
Run4(c)     == IsAlnum(c) \/ c = Dot
Run6(c)     == IsAlnum(c) \/ c = Colon
Run46(c)    == IsAlnum(c) \/ c = Colon \/ c = Dot

MinOf(S) == CHOOSE x \in S : \A y \in S : x <= y
MaxOf(S) == CHOOSE x \in S : \A y \in S : x >= y

\* ---- maximal runs ----------------------------------------------------------
RunStarts(s, R(_)) == {i \in 1..Len(s) : R(s[i]) /\ (i = 1 \/ ~R(s[i - 1]))}
RunEnd(s, i, R(_)) == MinOf({j \in i..Len(s) : j = Len(s) \/ ~R(s[j + 1])})
\* the maximal run of class R that starts at or contains position i, as <<start, end>>
RunAt(s, i, R(_))  == LET a == MaxOf({k \in 1..i : (k = 1 \/ ~R(s[k - 1]))} \cap {k \in 1..i : \A m \in k..i : R(s[m])})
                      IN  <<a, RunEnd(s, a, R)>>

\* ---- splitting -------------------------------------------------------------
RECURSIVE SplitFrom(_, _, _)
SplitFrom(t, sep, i) ==       \* fields of t[i..] separated by sep (a trailing sep gives a last empty field)
  LET S == {j \in i..Len(t) : t[j] = sep} IN
  IF S = {} THEN <<SubSeq(t, i, Len(t))>>
  ELSE LET j == MinOf(S) IN <<SubSeq(t, i, j - 1)>> \o SplitFrom(t, sep, j + 1)
Split(t, sep) == SplitFrom(t, sep, 1)

RECURSIVE Num(_, _)
Num(d, base) == IF d = << >> THEN 0 ELSE Num(SubSeq(d, 1, Len(d) - 1), base) * base + HexVal(d[Len(d)])
RECURSIVE StripZeros(_)
StripZeros(d) == IF d # << >> /\ d[1] = 48 THEN StripZeros(Tail(d)) ELSE d

\* ---- IPv4 ------------------------------------------------------------------
OctetOK(p) == /\ p # << >> /\ \A i \in 1..Len(p) : IsDigit(p[i])
              /\ LET q == StripZeros(p) IN Len(q) <= 3 /\ Num(q, 10) <= 255
Valid4(t)  == LET f == Split(t, Dot) IN Len(f) = 4 /\ \A i \in 1..4 : OctetOK(f[i])
Octets(t)  == LET f == Split(t, Dot) IN [i \in 1..4 |-> Num(StripZeros(f[i]), 10)]
\* spelling without leading zeros (what a replacement must look like)
Plain4(t)  == Valid4(t) /\ LET f == Split(t, Dot) IN \A i \in 1..4 : f[i] = <<48>> \/ f[i][1] # 48

BitsOf(n, k) == [i \in 1..k |-> (n \div (2 ^ (k - i))) % 2]
RECURSIVE Flatten(_)
Flatten(ss) == IF ss = << >> THEN << >> ELSE ss[1] \o Flatten(Tail(ss))
Bits4(t) == LET o == Octets(t) IN Flatten([i \in 1..4 |-> BitsOf(o[i], 8)])

\* netmask / wildcard shaped: at most one change between neighbouring bits
IsMaskBits(b) == Cardinality({i \in 1..(Len(b) - 1) : b[i] # b[i + 1]}) <= 1

\* the 2W mask / wildcard values of width W, written out independently: 1^k 0^(W-k) and 0^k 1^(W-k)
MaskSet(W) == {[i \in 1..W |-> IF i <= k THEN 1 ELSE 0] : k \in 0..W} \cup {[i \in 1..W |-> IF i <= k THEN 0 ELSE 1] : k \in 0..W}
MaskTheorem(W) == \A b \in [1..W -> {0, 1}] : IsMaskBits(b) <=> b \in MaskSet(W)

\* ---- IPv6 ------------------------------------------------------------------
GroupOK(g)  == Len(g) \in 1..4 /\ \A i \in 1..Len(g) : IsHex(g[i])
DoubleColons(t) == {i \in 1..(Len(t) - 1) : t[i] = Colon /\ t[i + 1] = Colon}
Groups(part) == IF part = << >> THEN << >> ELSE Split(part, Colon)
\* <<valid?, sequence of 8 group values>> for a token without dots
Parse6(t) ==
  LET D == DoubleColons(t) IN
  IF D = {} THEN
    LET f == Split(t, Colon) IN
    IF Len(f) = 8 /\ \A i \in 1..8 : GroupOK(f[i])
    THEN <<TRUE, [i \in 1..8 |-> Num(f[i], 16)]>> ELSE <<FALSE, << >>>>
  ELSE IF Cardinality(D) = 1 THEN
    LET i == MinOf(D)
        L == Groups(SubSeq(t, 1, i - 1))
        R == Groups(SubSeq(t, i + 2, Len(t))) IN
    IF (\A k \in 1..Len(L) : GroupOK(L[k])) /\ (\A k \in 1..Len(R) : GroupOK(R[k])) /\ Len(L) + Len(R) <= 7
    THEN <<TRUE, [k \in 1..8 |-> IF k <= Len(L) THEN Num(L[k], 16)
                                  ELSE IF k > 8 - Len(R) THEN Num(R[k - (8 - Len(R))], 16) ELSE 0]>>
    ELSE <<FALSE, << >>>>
  ELSE <<FALSE, << >>>>
\* a token with a dotted-quad tail: the tail stands for the last two groups
LastColon(t) == IF \E i \in 1..Len(t) : t[i] = Colon THEN MaxOf({i \in 1..Len(t) : t[i] = Colon}) ELSE 0
ParseTail6(t) ==
  LET k == LastColon(t) IN
  IF k = 0 \/ k = Len(t) THEN <<FALSE, << >>>>
  ELSE LET tail == SubSeq(t, k + 1, Len(t)) IN
       IF ~Plain4(tail) THEN <<FALSE, << >>>>
       ELSE LET o == Octets(tail)
                p == Parse6(SubSeq(t, 1, k) \o <<48, Colon, 48>>) IN      \* head + "0:0"
            IF ~p[1] THEN <<FALSE, << >>>>
            ELSE <<TRUE, [i \in 1..8 |-> IF i = 7 THEN o[1] * 256 + o[2]
                                         ELSE IF i = 8 THEN o[3] * 256 + o[4] ELSE p[2][i]]>>
HasDot(t) == \E i \in 1..Len(t) : t[i] = Dot
Parse6Any(t) == IF HasDot(t) THEN ParseTail6(t) ELSE Parse6(t)
Valid6(t) == Parse6Any(t)[1]
Bits6(t)  == LET g == Parse6Any(t)[2] IN Flatten([i \in 1..8 |-> BitsOf(g[i], 16)])
\* replacement spelling: valid, lower case, no leading zeros in a group, no dotted tail
Plain6(t) == /\ ~HasDot(t) /\ Valid6(t)
             /\ \A i \in 1..Len(t) : ~IsUpper(t[i])
             /\ \A g \in {f \in {Split(t, Colon)[i] : i \in 1..Len(Split(t, Colon))} : f # << >>} :
                   g = <<48>> \/ g[1] # 48

\* ---- tokens of a line ------------------------------------------------------
\* IPv6 tokens: <<start, end>> ; a whole [alnum : .] run when it is a valid tail form,
\* otherwise the valid [alnum :] runs
Tail6Tokens(s) == {<<i, RunEnd(s, i, Run46)>> : i \in RunStarts(s, Run46)}
TailTokens(s)  == {r \in Tail6Tokens(s) :
                     LET t == SubSeq(s, r[1], r[2]) IN HasDot(t) /\ \E k \in 1..Len(t) : t[k] = Colon /\ ParseTail6(t)[1]}
Plain6Tokens(s) == {r \in {<<i, RunEnd(s, i, Run6)>> : i \in RunStarts(s, Run6)} :
                      /\ Parse6(SubSeq(s, r[1], r[2]))[1]
                      /\ ~\E q \in TailTokens(s) : q[1] <= r[1] /\ r[2] <= q[2]}
Tokens6(s) == TailTokens(s) \cup Plain6Tokens(s)
Inside6(s, r) == \E q \in Tokens6(s) : q[1] <= r[1] /\ r[2] <= q[2]
Tokens4(s) == {r \in {<<i, RunEnd(s, i, Run4)>> : i \in RunStarts(s, Run4)} :
                 Valid4(SubSeq(s, r[1], r[2])) /\ ~Inside6(s, r)}

\* an IPv6 token (not a tail form) directly followed by '.': result depends on the image
\* ('%' is an ordinary delimiter: a zone identifier after an address is text outside the token and is copied)
DontCare(s) == \E r \in Plain6Tokens(s) : r[2] < Len(s) /\ s[r[2] + 1] = Dot

\* sorted token list of the families that are switched on: <<start, end, family>>
RECURSIVE SortTokens(_)
SortTokens(T) == IF T = {} THEN << >>
                 ELSE LET m == CHOOSE t \in T : \A u \in T : t[1] <= u[1] IN <<m>> \o SortTokens(T \ {m})
TokenList(s, on4, on6) ==
  SortTokens((IF on6 THEN {<<r[1], r[2], 6>> : r \in Tokens6(s)} ELSE {}) \cup
             (IF on4 THEN {<<r[1], r[2], 4>> : r \in (IF on6 THEN Tokens4(s)
                                                        ELSE {q \in {<<i, RunEnd(s, i, Run4)>> : i \in RunStarts(s, Run4)} :
                                                                Valid4(SubSeq(s, q[1], q[2]))})} ELSE {}))

(***************************************************************************)
(* Alignment of an output line with its input line along the token list.   *)
(* Result: <<ok, pairs>> where pairs is a sequence of                      *)
(*   [fam |-> 4 or 6, tok |-> input token text, rep |-> output text at its place] *)
(* ok = FALSE when some character outside the tokens was not copied.       *)
(***************************************************************************)
RECURSIVE AlignFrom(_, _, _, _, _)
AlignFrom(in, out, toks, pi, po) ==
  IF toks = << >> THEN
    <<SubSeq(in, pi, Len(in)) = SubSeq(out, po, Len(out)), << >>>>
  ELSE
    LET t    == toks[1]
        litn == t[1] - pi                                    \* length of the literal segment before the token
    IN
    IF po + litn - 1 > Len(out) \/ SubSeq(in, pi, t[1] - 1) # SubSeq(out, po, po + litn - 1)
    THEN <<FALSE, << >>>>
    ELSE LET qo  == po + litn
             \* the replacement is the maximal run of the family's characters at qo in the output
             e   == IF qo > Len(out) THEN qo - 1
                    ELSE IF t[3] = 4 THEN (IF Run4(out[qo]) THEN RunEnd(out, qo, Run4) ELSE qo - 1)
                    ELSE (IF Run6(out[qo]) THEN RunEnd(out, qo, Run6) ELSE qo - 1)
             rest == AlignFrom(in, out, Tail(toks), t[2] + 1, e + 1)
         IN  <<rest[1], <<[fam |-> t[3], tok |-> SubSeq(in, t[1], t[2]), rep |-> SubSeq(out, qo, e)]>> \o rest[2]>>
Align(in, out, on4, on6) == AlignFrom(in, out, TokenList(in, on4, on6), 1, 1)
=============================================================================
