------------------------------ MODULE CliTrace ------------------------------
(***************************************************************************)
(* C19 - trace validation of real runs of netconan.netconan.main against   *)
(* the requirement module Cli.  One trace = one class of option vectors    *)
(* that R maps to the same library parameters (or a single vector).        *)
(*                                                                         *)
(*   start compare                   new trace; compare = FALSE when the   *)
(*                                   harness found the library run itself  *)
(*                                   not repeatable (then bytes are not    *)
(*                                   compared - that is C13's business)    *)
(*   ref   params digest             anonymize_files(params) was run in    *)
(*                                   a fresh process and directory; digest *)
(*                                   = hash of every created path + bytes  *)
(*   run   cli cfg outcome created   main(argv [+ config file]) returned / *)
(*         intact digest             raised in a fresh process + directory *)
(*                                                                         *)
(*   roundtrip salt place o1 o2      main -a -s X ; main -u -s X on its    *)
(*             restored              output (two fresh processes): outcomes *)
(*                                   and whether the input came back        *)
(*                                                                         *)
(* Every run event is judged (total verdict, first failing clause named):  *)
(* Cli!Verdict on the outcome class and what was written; then, for a      *)
(* valid vector with a salt, the created bytes must equal those of the     *)
(* class reference (the library run under R's parameter mapping, or - when *)
(* that is unavailable - the first accepted run of the class).             *)
(***************************************************************************)
EXTENDS Cli, Json, IOUtils

Trace == ndJsonDeserialize(IOEnv.TRACE_FILE)
N     == Len(Trace)
VARIABLES l, compare, ref, refp
tvars == <<l, compare, ref, refp>>

RangeOf(s)  == {s[k] : k \in DOMAIN s}
NoParams    == [none |-> TRUE]
FromJson(P) == [P EXCEPT !.prefixes = RangeOf(@), !.nets = RangeOf(@)]
Vec(e)      == [cli |-> e.cli, cfg |-> e.cfg, sp |-> e.sp]
Compared(e, v) == compare /\ Decision(v) = "Run" /\ e.outcome \in Normal /\ Comparable(v)

RunVerdict(e) ==
  LET v == Vec(e) IN
  IF ~WellFormed(v) THEN "HarnessBadVector"
  ELSE LET b == Verdict(v, e.outcome, RangeOf(e.created), e.intact) IN
       IF b # "ok" THEN b
       ELSE IF Compared(e, v) /\ ref # None
            THEN (IF Params(v) # refp THEN "HarnessGrouping"
                  ELSE IF e.digest # ref THEN "OutputDiffersWithinClass" ELSE "ok")
            ELSE "ok"

TraceInit == l = 1 /\ compare = TRUE /\ ref = None /\ refp = NoParams
TraceNext ==
  /\ l <= N /\ l' = l + 1
  /\ LET e == Trace[l] IN
     CASE e.ev = "start" -> compare' = e.compare /\ ref' = None /\ refp' = NoParams
       [] e.ev = "ref"   -> ref' = e.digest /\ refp' = FromJson(e.params) /\ UNCHANGED compare
       [] e.ev = "run"   ->
            LET c == RunVerdict(e) v == Vec(e) IN
            IF c # "ok" THEN PrintT(<<"FAIL", e.tid, l, c>>) /\ UNCHANGED <<compare, ref, refp>>
            ELSE IF Compared(e, v) /\ ref = None
                 THEN ref' = e.digest /\ refp' = Params(v) /\ UNCHANGED compare
                 ELSE UNCHANGED <<compare, ref, refp>>
       [] e.ev = "roundtrip" ->
            LET c == RoundTripVerdict(e.o1, e.o2, e.restored) IN
            /\ (c # "ok" => PrintT(<<"FAIL", e.tid, l, c>>))
            /\ UNCHANGED <<compare, ref, refp>>
       [] OTHER -> PrintT(<<"FAIL", e.tid, l, "UnknownEvent">>) /\ UNCHANGED <<compare, ref, refp>>
TraceSpec == TraceInit /\ [][TraceNext]_tvars
Done == l = N + 1 => PrintT(<<"DONE", N>>)
=============================================================================
