------------------------------ MODULE FilesNest ------------------------------
(***************************************************************************)
(* C16 when the OUTPUT directory lies INSIDE the input directory           *)
(* (`-i configs -o configs/anonymized`, `-o configs/sub/anon`).            *)
(*                                                                         *)
(* R: the input files of a run are the files below the input directory AT  *)
(* THE START of the run.  Each of them yields exactly one output at the    *)
(* mirrored path below the output directory, and nothing else is written - *)
(* in particular the run never takes its own outputs for inputs.           *)
(*                                                                         *)
(* Model: a path is a sequence of names; the input root is << >>, the      *)
(* output root is Out (a path inside it).  `fs` / `ds` are the files and   *)
(* directories that exist.  The walk is top-down like os.walk: a directory *)
(* is listed when it is entered (its files, and the sub-directories that   *)
(* exist at that moment, which are entered later).                         *)
(* M, Lazy = FALSE (the code): the whole tree is listed before the first   *)
(* file is written.  Lazy = TRUE (work list as a generator over the walk): *)
(* listing and writing alternate, directories entered after the first      *)
(* write show what the run itself has produced.  TLC proves the clauses    *)
(* for Lazy = FALSE and refutes NothingElseWritten for Lazy = TRUE (the    *)
(* harness requires that refutation: vacuity guard).  MaxLen stands for    *)
(* the path-length limit that ends the recursion of the lazy machine.      *)
(***************************************************************************)
EXTENDS Naturals, Sequences, FiniteSets, TLC
CONSTANTS Lazy, MaxLen

StartFiles == {<<"a">>, <<"b">>, <<"sub", "c">>}
Front(p)   == SubSeq(p, 1, Len(p) - 1)
Prefixes(p) == {SubSeq(p, 1, n) : n \in 1..Len(p)}

VARIABLES out,     \* the output root: <<"anon">> or <<"sub","anon">>
          fs, ds,  \* files / directories that exist
          start,   \* the files that existed when the run began
          stack,   \* directories still to be entered (a set: any order of entering them)
          todo,    \* files listed and not yet processed
          begun    \* the first directory has been entered
vars == <<out, fs, ds, start, stack, todo, begun>>

Init == /\ out \in {<<"anon">>, <<"sub", "anon">>}
        /\ \E pre \in BOOLEAN, old \in BOOLEAN :          \* output directory pre-existing? holding an earlier result?
             /\ old => pre
             /\ fs = StartFiles \cup (IF old THEN {out \o <<"old">>} ELSE {})
             /\ ds = {<<"sub">>} \cup (IF pre THEN Prefixes(out) ELSE {})
        /\ start = fs
        /\ stack = { << >> } /\ todo = {} /\ begun = FALSE

Enter == /\ stack # {}
         /\ (todo = {} \/ ~Lazy)
         /\ \E d \in stack :
            /\ todo' = todo \cup {p \in fs : Front(p) = d}
            /\ stack' = (stack \ {d}) \cup {e \in ds : Len(e) > 0 /\ Front(e) = d}
         /\ begun' = TRUE /\ UNCHANGED <<out, fs, ds, start>>
Write == /\ todo # {}
         /\ (Lazy \/ stack = {})                            \* eager: nothing is written before the walk is over
         /\ \E p \in todo :
              /\ todo' = todo \ {p}
              /\ IF Len(out \o p) <= MaxLen
                 THEN fs' = fs \cup {out \o p} /\ ds' = ds \cup Prefixes(Front(out \o p))
                 ELSE UNCHANGED <<fs, ds>>                \* path too long: the file fails
         /\ UNCHANGED <<out, start, stack, begun>>
Next == Enter \/ Write
Spec == Init /\ [][Next]_vars

Finished == begun /\ stack = {} /\ todo = {}
Mirror   == {out \o p : p \in start}
NothingElseWritten == (fs \ start) \subseteq Mirror
OneToOne           == Finished => Mirror \subseteq fs
InputsKept         == start \subseteq fs
=============================================================================
