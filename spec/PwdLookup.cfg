CONSTANTS MaxHist = 4
SPECIFICATION Spec
INVARIANT RInjective
PROPERTY StepOK
CHECK_DEADLOCK FALSE
