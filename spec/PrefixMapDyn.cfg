\* all request histories: the revealed pairs are always the graph of one function
CONSTANTS MaxW = 2  MaxPins = 1  LemmaPairs = 0
SPECIFICATION Spec
INVARIANT ObsIsGraph
INVARIANT ObsFunctional
CHECK_DEADLOCK FALSE
