CONSTANTS MaxW = 3  MaxPins = 2  Depth = 8
SPECIFICATION SimSpec
INVARIANT Emit
CHECK_DEADLOCK FALSE
