----------------------------- MODULE WordsTrace -----------------------------
(***************************************************************************)
(* Trace validation of the sensitive-word stage against Words.tla.         *)
(*   cfg    words reserved clauses     a configuration (salt fixed)        *)
(*   learn  text pseudo                some anonymizer with this salt was  *)
(*                                     given exactly `text` (a possible    *)
(*                                     matched text) and answered `pseudo` *)
(*   line   in out                     one line through the word stage     *)
(*   exc    what                                                           *)
(* pm (matched text -> pseudonym) is learned from the learn events, which  *)
(* come from several instances / processes / hash seeds with the same      *)
(* salt: Functional demands they all agree.                                *)
(***************************************************************************)
EXTENDS Words, Json, IOUtils

Trace == ndJsonDeserialize(IOEnv.TRACE_FILE)
N     == Len(Trace)
VARIABLES l, cls, wl, rs, pm
tvars == <<l, cls, wl, rs, pm, wvars>>
ToSet(s) == {s[i] : i \in 1..Len(s)}
Trail(s) == LET T == Tokens(s) IN
            IF Len(T) = 0 THEN << >>
            ELSE LET st == SortNat(TokStarts(s)) IN SubSeq(s, TokEnd(s, st[Len(st)]) + 1, Len(s))

TokVerdict(ti, to) ==
  IF ExactReserved(ti, rs) THEN (IF "ReservedKept" \in cls /\ to # ti THEN "ReservedKept" ELSE "ok")
  ELSE IF Exempt(ti, rs) THEN "ok"            \* equal to a reserved word up to case: either outcome
  ELSE IF ~(MatchedTexts(ti, 1, wl) \subseteq DOMAIN pm) THEN "Unlearned"
  ELSE IF "Rewrite" \in cls /\ to \notin Rewrites(ti, wl, pm) THEN "Rewrite"
  ELSE "ok"

TokenClauses == cls \cap {"Rewrite", "ReservedKept"} # {}
LineVerdict(e) ==
  LET Ti == Tokens(e.in)  To == Tokens(e.out)
      surv == IF "Survivor" \in cls /\ ~NoSurvivor(e.out, wl, rs) THEN "Survivor" ELSE "ok" IN
  IF ~TokenClauses THEN surv            \* e.g. lines that another stage restructures: only "no listed word survives"
  ELSE IF Len(Ti) # Len(To) \/ Lead(e.in) # Lead(e.out) \/ Trail(e.in) # Trail(e.out) THEN "Structure"
  ELSE LET bad == {k \in 1..Len(Ti) : TokVerdict(Ti[k], To[k]) # "ok"} IN
       IF bad # {} THEN TokVerdict(Ti[CHOOSE k \in bad : \A j \in bad : k <= j], To[CHOOSE k \in bad : \A j \in bad : k <= j])
       ELSE surv

TraceInit == l = 1 /\ cls = {} /\ wl = {} /\ rs = {} /\ pm = << >> /\ words = {} /\ order = << >> /\ tok = << >>
TraceNext ==
  /\ l <= N /\ l' = l + 1 /\ UNCHANGED wvars
  /\ LET e == Trace[l] IN
     IF e.ev = "cfg" THEN wl' = ToSet(e.words) /\ rs' = ToSet(e.reserved) /\ cls' = ToSet(e.clauses) /\ pm' = << >>
     ELSE IF e.ev = "learn" THEN
        /\ UNCHANGED <<cls, wl, rs>>
        /\ IF e.text \in DOMAIN pm /\ pm[e.text] # e.pseudo
           THEN PrintT(<<"FAIL", e.tid, l, "Functional">>) /\ pm' = pm
           ELSE pm' = (e.text :> e.pseudo) @@ pm
     ELSE IF e.ev = "line" THEN
        /\ UNCHANGED <<cls, wl, rs, pm>>
        /\ LET v == LineVerdict(e) IN v # "ok" => PrintT(<<"FAIL", e.tid, l, v>>)
     ELSE UNCHANGED <<cls, wl, rs, pm>> /\ PrintT(<<"FAIL", e.tid, l, "Exception">>)
TraceSpec == TraceInit /\ [][TraceNext]_tvars
Done == l = N + 1 => PrintT(<<"DONE", N>>)
=============================================================================
