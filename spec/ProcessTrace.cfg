SPECIFICATION TraceSpec
INVARIANT Done
CHECK_DEADLOCK FALSE
