------------------------------ MODULE AsNumMC ------------------------------
(***************************************************************************)
(* TLC design checks for C11 on scaled block tables.                       *)
(*                                                                         *)
(* A "case" is <<list, line, h>>: the listed numbers in the order given,   *)
(* one input line, one hash value.  The implementation model M (AsNum.tla) *)
(* answers anonymize(n) through an anonymizer built for n ALONE, then      *)
(* through the anonymizer built for the whole list, which then rewrites    *)
(* the line; the requirement R judges exactly what the trace validator     *)
(* will see: the single-number answers teach `known`, the list             *)
(* anonymizer's answers and its line are judged against it.                *)
(*                                                                         *)
(*   MImpliesR      every case of M is accepted by R                       *)
(*   RDeterminate   whatever implementation (M or any named deviation) is  *)
(*                  accepted by R produced exactly Expected(...) - R is    *)
(*                  not weaker than the property                           *)
(*   DeviationsInvisible   is meant to be VIOLATED: the named deviations   *)
(*                  are observable in this scope (vacuity guard)           *)
(*                                                                         *)
(* Configurations (cfg binds Bounds, Lists, Lines, Hashes):                *)
(*   arithmetic: table (0,4,6,12,16), every n in 0..15 alone on a line,    *)
(*               every h in 0..40 (covers h = size-1 and beyond for every  *)
(*               block)                                                    *)
(*   scanner:    decimal table (10,100,1000,10000), every ordered list of  *)
(*               <= MaxList distinct numbers over digits {1,2} with        *)
(*               <= NumLen digits (all prefix/suffix/concatenation         *)
(*               relations; lists of three from numbers of <= 2 digits),   *)
(*               every line of <= MaxLen characters over {1, 2, x},        *)
(*               hash values 0, 5, 11, 99                                  *)
(***************************************************************************)
EXTENDS AsNum

CONSTANTS Lists, Lines(_), Hashes, MaxLen, MaxList, NumLen

X == 220                                   \* the letter x
NumsUpTo(n) == UNION {[1..k -> {1, 2}] : k \in 1..n}
ListsArith  == {<<ToDigits(k)>> : k \in 0..15}
LinesArith(list) == {list[1], <<X>> \o list[1] \o <<X>>}
HashesArith == 0..40
ListsScan   == LET U == NumsUpTo(NumLen) IN
               {<<a>> : a \in U}
               \cup (IF MaxList >= 2 THEN {<<a, b>> : a, b \in U} \ {<<a, a>> : a \in U} ELSE {})
               \cup (IF MaxList >= 3 THEN {s \in {<<a, b, c>> : a, b, c \in NumsUpTo(IF NumLen < 2 THEN NumLen ELSE 2)} : s[1] # s[2] /\ s[1] # s[3] /\ s[2] # s[3]} ELSE {})
LinesScan(list) == UNION {[1..k -> {1, 2, X}] : k \in 0..MaxLen}
HashesScan  == {0, 5, 11, 99}
HashesScan2 == {11, 99}                  \* 11: identities and collisions (1->1, 2->1, 21->21); 99: upper ends

VARIABLES phase, list, line, h
vars == <<phase, list, line, h>>

Init == phase = 0 /\ list \in Lists /\ line = << >> /\ h = 0
Next == /\ phase = 0 /\ phase' = 1 /\ UNCHANGED list
        /\ line' \in Lines(list) /\ h' \in Hashes
Spec == Init /\ [][Next]_vars

L == {list[i] : i \in 1..Len(list)}
Devs == {"none"} \cup ReplDeviations \cup ScanDeviations \cup MapDeviations

\* what the trace validator sees of implementation d: first the answers of anonymizers built for
\* each listed number ALONE (they teach `known`), then the answers of the anonymizer built for the
\* whole list, then its line
\* (for every deviation but AvoidCollisions the single-number anonymizer and the list anonymizer
\* give the same answers by construction of MMap, so the map is computed once)
Case(d) ==
  LET lm    == MMap(d, list, h)
      known == IF d \in MapDeviations THEN [n \in L |-> Norm(MMap(d, <<n>>, h)[n])]
               ELSE [n \in L |-> Norm(lm[n])]
      out   == MScan(d, list, line, 1, lm, FALSE)
      ok    == /\ \A n \in L : ReplVerdict(n, known[n], << >>) = "ok"
               /\ d \in MapDeviations => \A n \in L : ReplVerdict(n, lm[n], known) = "ok"
               /\ LineVerdict(L, line, out, known).clause = "ok"
  IN [ok |-> ok, out |-> out, known |-> known]
Accepted(d) == Case(d).ok

MImpliesR    == phase = 1 => Accepted("none")
RDeterminate == phase = 1 => \A d \in Devs : LET c == Case(d) IN c.ok => c.out = Expected(L, line, c.known)
\* the map R learns from a line alone is the implementation's
LearnsMap    == phase = 1 =>
                  LET v == LineVerdict(L, line, MOut("none", list, line, h), << >>) IN
                  v.clause = "ok" /\ \A n \in DOMAIN v.known : v.known[n] = Norm(MRepl("none", n, h))
DeviationsInvisible == phase = 1 => \A d \in Devs : Accepted(d)
DeviationInvisible_SizePlusOne       == phase = 1 => Accepted("SizePlusOne")
DeviationInvisible_BoundaryLe        == phase = 1 => Accepted("BoundaryLe")
DeviationInvisible_ModNextBegin      == phase = 1 => Accepted("ModNextBegin")
DeviationInvisible_NoBlockOffset     == phase = 1 => Accepted("NoBlockOffset")
DeviationInvisible_NoLookbehind      == phase = 1 => Accepted("NoLookbehind")
DeviationInvisible_NoLookahead       == phase = 1 => Accepted("NoLookahead")
DeviationInvisible_AtomicAlternation == phase = 1 => Accepted("AtomicAlternation")
DeviationInvisible_FirstMatchOnly    == phase = 1 => Accepted("FirstMatchOnly")
DeviationInvisible_DigitBeyondPunct  == phase = 1 => Accepted("DigitBeyondPunct")
DeviationInvisible_AvoidCollisions   == phase = 1 => Accepted("AvoidCollisions")
=============================================================================
