---------------------------- MODULE SecretForms ----------------------------
(***************************************************************************)
(* R-level table of the line forms in which netconan must recognise a      *)
(* secret (C07/C09), and the generator of abstract secret-bearing lines.   *)
(*                                                                         *)
(* A form is a sequence of elements:                                       *)
(*   L(t)      literal words t                                             *)
(*   A(<<..>>) exactly one of the alternatives                             *)
(*   O(<<..>>) nothing, or one of the alternatives                         *)
(*   S(n)      the n-th secret of the line (a single token)                *)
(*   T         optional trailing words the syntax allows after the secret  *)
(* Inside literals  #N = a number, #D = one digit, #W = a word, #A = an    *)
(* IPv4 address (concretized by the harness; they are not secrets).        *)
(* mode "replace": the secret's position holds a pseudonym, everything     *)
(* else on the line is kept.  mode "scrub": today the rest of the line is  *)
(* replaced by a fixed notice; R accepts that or a pseudonym in place.     *)
(*                                                                         *)
(* The abstract line says nothing about the secret's content: only its     *)
(* format class, so the abstract OUTPUT (same tokens, secret |-> PSEUDO)    *)
(* is independent of the content by construction - the R-level statement   *)
(* of C07.  TLC enumerates every form x every choice of alternatives x     *)
(* every class x contexts and appends each abstract line to OUT_FILE.      *)
(***************************************************************************)
EXTENDS Naturals, Sequences, FiniteSets, TLC, Json, IOUtils

L(t) == [k |-> "lit", t |-> t]
A(a) == [k |-> "alt", a |-> a]
O(a) == [k |-> "opt", a |-> a]
S(n) == [k |-> "sec", n |-> n]
T    == [k |-> "tail"]

TypeD == <<"0", "5", "7">>       \* the optional type digit the syntaxes allow before a secret

Forms == <<
  [id |-> "P1",  mode |-> "replace", el |-> <<L("set"), A(<<"password", "pksecret">>), O(<<"ENC">>), S(1)>>],
  [id |-> "P2",  mode |-> "replace", el |-> <<O(<<"enable">>), A(<<"password", "passwd">>), O(<<"level #N">>), O(TypeD), S(1), T>>],
  [id |-> "P3",  mode |-> "replace", el |-> <<L("username #W"), O(<<"view #W", "privilege #N">>), A(<<"password", "secret">>), O(<<"0", "5", "7", "sha512">>), S(1)>>],
  [id |-> "P4",  mode |-> "replace", el |-> <<O(<<"enable">>), L("secret"), O(TypeD), S(1)>>],
  [id |-> "P5",  mode |-> "replace", el |-> <<L("ip ftp password"), O(TypeD), S(1)>>],
  [id |-> "P6",  mode |-> "replace", el |-> <<L("ip ospf authentication-key"), O(TypeD), S(1)>>],
  [id |-> "P7",  mode |-> "replace", el |-> <<L("ip ospf message-digest-key #N md5"), O(TypeD), S(1)>>],
  [id |-> "P8",  mode |-> "replace", el |-> <<O(<<"vrrp #N">>), L("authentication text"), S(1)>>],
  [id |-> "P9",  mode |-> "replace", el |-> <<L("isis password"), S(1), O(<<"level-1", "level-2">>)>>],
  [id |-> "P10", mode |-> "replace", el |-> <<A(<<"domain-password", "area-password">>), S(1), O(<<"authenticate snp validate", "authenticate snp send-only">>)>>],
  [id |-> "P12", mode |-> "replace", el |-> <<L("standby"), O(<<"#N">>), L("authentication"), O(<<"text", "md5 key-string", "md5 key-string 7">>), S(1), O(<<"timeout #N">>)>>],
  [id |-> "P13", mode |-> "replace", el |-> <<L("l2tp tunnel"), O(<<"#W">>), L("password"), O(TypeD), S(1)>>],
  [id |-> "P14", mode |-> "replace", el |-> <<L("digest secret"), O(TypeD), S(1), O(<<"hash MD5">>)>>],
  [id |-> "P15", mode |-> "replace", el |-> <<L("ppp"), A(<<"chap", "pap sent-username">>), L("hostname"), S(1)>>],
  [id |-> "P16", mode |-> "replace", el |-> <<L("ppp"), A(<<"chap", "pap sent-username #W">>), L("password"), O(TypeD), S(1)>>],
  [id |-> "P17", mode |-> "replace", el |-> <<L("pre-shared-key"), A(<<"address #A", "address ipv6 ::1/128", "hostname example.com">>), L("key"), O(<<"0", "6">>), S(1)>>],
  [id |-> "P18", mode |-> "replace", el |-> <<O(<<"ikev2">>), A(<<"local-authentication", "remote-authentication">>), L("pre-shared-key"), S(1)>>],
  [id |-> "P19", mode |-> "replace", el |-> <<L("pre-shared-key"), O(<<"remote", "local">>), O(<<"hex", "hexadecimal", "ascii-text", "0", "6">>), S(1)>>],
  [id |-> "P20", mode |-> "replace", el |-> <<A(<<"tacacs-server", "radius-server">>), O(<<"host #A">>), L("key"), O(TypeD), S(1)>>],
  [id |-> "P21", mode |-> "replace", el |-> <<L("key"), O(<<"0", "7", "hexadecimal">>), S(1)>>],
  [id |-> "P22", mode |-> "replace", el |-> <<L("ntp authentication-key #N md5"), S(1), O(<<"#D">>)>>],
  [id |-> "P23", mode |-> "replace", el |-> <<L("syscon"), A(<<"password", "address #A">>), S(1)>>],
  [id |-> "P24", mode |-> "replace", el |-> <<L("snmp-server user #W #W"), O(<<"v3", "remote #W v3", "v3 encrypted">>), L("auth"), A(<<"md5", "sha">>), S(1), O(<<"something">>)>>],
  [id |-> "P24b", mode |-> "replace", el |-> <<L("snmp-server user #W #W"), O(<<"v3">>), L("auth"), A(<<"md5", "sha">>), S(1), L("priv"), O(<<"3des", "aes 128", "aes", "des">>), S(2), O(<<"something">>)>>],
  [id |-> "P25", mode |-> "replace", el |-> <<O(<<"crypto">>), L("isakmp key"), O(<<"0", "6">>), S(1), O(<<"address #A 255.255.255.0", "hostname #W">>)>>],
  [id |-> "P26", mode |-> "replace", el |-> <<L("set session-key"), A(<<"inbound", "outbound">>), L("ah #N"), S(1)>>],
  [id |-> "P27", mode |-> "replace", el |-> <<L("set session-key"), A(<<"inbound", "outbound">>), L("esp #N authenticator"), S(1)>>],
  [id |-> "P27b", mode |-> "replace", el |-> <<L("set session-key"), A(<<"inbound", "outbound">>), L("esp #N cipher"), S(1), L("authenticator"), S(2)>>],
  [id |-> "P28", mode |-> "replace", el |-> <<O(<<"set protocols ospf area 0 interface ge-0/0/0.0">>), A(<<"authentication-key", "hello-authentication-key">>), S(1)>>],
  [id |-> "C1",  mode |-> "replace", el |-> <<L("snmp-server"), O(<<"#W">>), L("community"), O(<<"0", "8">>), S(1), O(<<"ro #N", "RW #N", "Something">>)>>],
  [id |-> "C2",  mode |-> "replace", el |-> <<L("snmp-server host #A"), O(<<"vrf #W">>), O(<<"informs", "traps">>), O(<<"version 1", "version 2c", "version 3 auth", "version 3 noauth", "version 3 priv">>), S(1), O(<<"ipsec", "config", "vrrp">>)>>],
  [id |-> "C3",  mode |-> "replace", el |-> <<L("set snmp"), A(<<"community", "trap-group">>), S(1), O(<<"authorization read-only", "otherstuff">>)>>],
  [id |-> "E3",  mode |-> "replace", el |-> <<L("key-hash sha256"), S(1)>>],
  [id |-> "E4",  mode |-> "replace", el |-> <<O(<<"route-map #W permit #N">>), L("set community"), S(1), O(<<"trailing text">>)>>],
  [id |-> "E5",  mode |-> "replace", el |-> <<L("snmp-server mib community-map"), S(1), L("context #W")>>],
  [id |-> "E6",  mode |-> "replace", el |-> <<O(<<"rf-switch">>), L("snmp-community"), S(1)>>],
  [id |-> "J1",  mode |-> "replace", el |-> <<O(<<"set system tacplus-server #A", "set system radius-server #A">>), L("secret"), S(1)>>],
  [id |-> "J2",  mode |-> "replace", el |-> <<L("set security ike policy #W pre-shared-key ascii-text"), S(1)>>],
  [id |-> "J3",  mode |-> "replace", el |-> <<L("set system license keys key"), S(1)>>],
  [id |-> "A1",  mode |-> "replace", el |-> <<L("<pre_shared_key>"), S(1), L("</pre_shared_key>")>>],
  [id |-> "A2",  mode |-> "replace", el |-> <<L("\"PreSharedKey\":"), S(1)>>],
  [id |-> "H1",  mode |-> "replace", el |-> <<A(<<"my password is", "set system login user #W authenitcation", "description backup of", "#W #W">>), S(1)>>],
  [id |-> "S1",  mode |-> "scrub",   el |-> <<L("cable shared-secret"), S(1)>>],
  [id |-> "S2",  mode |-> "scrub",   el |-> <<L("wpa-psk ascii"), S(1)>>],
  [id |-> "S3",  mode |-> "scrub",   el |-> <<L("ldap-login-password"), S(1)>>],
  [id |-> "S6",  mode |-> "scrub",   el |-> <<L("key-string"), O(<<"7">>), S(1)>>],
  [id |-> "S12", mode |-> "scrub",   el |-> <<O(<<"set system root-authentication", "set system login user #W authentication">>), L("encrypted-password"), S(1)>>],
  [id |-> "S11", mode |-> "scrub",   el |-> <<L("set protocols ospf area 0 interface #W authentication simple-password"), S(1)>>]
>>

Classes == {"text", "numeric", "hex", "type7", "md5", "sha512", "juniper9"}
\* forms whose secret slot is only meaningful for some classes
ClassesOf(f) ==
  IF f.id = "H1" THEN {"md5", "juniper9"}                \* lone hash-shaped token, whatever surrounds it
  ELSE IF f.id \in {"A1", "A2"} THEN {"text", "hex", "numeric"}    \* exactly 32 characters
  ELSE IF f.id = "E4" THEN Classes \ {"numeric"}         \* a numeric value after 'set community' is a BGP community
  ELSE Classes
\* how the secret token is wrapped (enclosing text that must be kept): none, "..", '..', {..}, [..], ..; "..";  ..,
Wraps  == {"bare", "dq", "sq", "brace", "bracket", "semi", "dqsemi", "comma"}
WrapsOf(f) == IF f.id \in {"A1", "A2", "E5"} THEN {"bare"}
              ELSE IF f.id \in {"J1", "J2", "J3", "P28"} THEN {"dq", "dqsemi", "bare", "semi"}
              ELSE Wraps
Leads  == {"", " ", "    ", "tab"}
SaltLens == {1, 2, 4, 8}

\* ---- expansion -------------------------------------------------------------
\* all choice sequences of a form: one entry per element: "" (absent) or the chosen literal, or the secret marker
RECURSIVE Expand(_, _)
Expand(el, i) ==
  IF i > Len(el) THEN {<< >>}
  ELSE LET e == el[i]
           here == IF e.k = "lit" THEN {[lit |-> e.t]}
                   ELSE IF e.k = "alt" THEN {[lit |-> e.a[j]] : j \in 1..Len(e.a)}
                   ELSE IF e.k = "opt" THEN {[lit |-> ""]} \cup {[lit |-> e.a[j]] : j \in 1..Len(e.a)}
                   ELSE IF e.k = "sec" THEN {[sec |-> e.n]}
                   ELSE {[lit |-> ""], [lit |-> "#W #W"]}
       IN  {<<h>> \o r : h \in here, r \in Expand(el, i + 1)}

NSecrets(f) == Cardinality({i \in 1..Len(f.el) : f.el[i].k = "sec"})

VARIABLES fi,     \* index of the form being expanded (0 = not chosen yet)
          line    \* the abstract line, or << >>
gvars == <<fi, line>>

CONSTANT Breadth   \* "all": every wrap and lead with every expansion; "pairwise": wraps/leads varied on one expansion per form

Init == fi \in 1..Len(Forms) /\ line = << >>
Pick ==
  /\ line = << >>
  /\ LET f == Forms[fi] IN
     \E toks \in Expand(f.el, 1) : \E c1 \in ClassesOf(f) : \E c2 \in (IF NSecrets(f) = 2 THEN {"text", "hex", "type7"} ELSE {"none"}) :
     \E w \in WrapsOf(f) : \E ld \in Leads : \E sl \in SaltLens : \E eq \in (IF NSecrets(f) = 2 THEN {"same", "diff"} ELSE {"one"}) :
        /\ (c1 # "md5" => sl = 4)
        /\ (Breadth = "pairwise" => (w = "bare" \/ ld = ""))            \* vary wrap and lead one at a time
        /\ (eq = "same" => c2 = c1 \/ c2 = "text")
        /\ line' = [form |-> f.id, mode |-> f.mode, toks |-> toks, cls |-> <<c1, IF eq = "same" THEN c1 ELSE c2>>,
                    wrap |-> w, lead |-> ld, slen |-> sl, eq |-> eq]
  /\ UNCHANGED fi
Next == Pick
Spec == Init /\ [][Next]_gvars

\* R-level shape of an abstract line: its secrets are numbered 1..n in order, nothing else is secret
WellFormed == line # << >> =>
  LET secs == [i \in {j \in 1..Len(line.toks) : "sec" \in DOMAIN line.toks[j]} |-> line.toks[i].sec] IN
  /\ DOMAIN secs # {}
  /\ {secs[i] : i \in DOMAIN secs} = 1..Cardinality(DOMAIN secs)
Emit == line = << >> \/ Serialize(ToJson(line) \o "\n", IOEnv.OUT_FILE,
                                   [format |-> "TXT", charset |-> "UTF-8",
                                    openOptions |-> <<"WRITE", "CREATE", "APPEND">>]).exitValue = 0
=============================================================================
