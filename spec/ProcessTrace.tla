---------------------------- MODULE ProcessTrace ----------------------------
(***************************************************************************)
(* Trace validation for C13: every recorded <<configuration, input>> must  *)
(* always show the same output bytes (digest), whichever process, hash     *)
(* seed or construction history produced it.                               *)
(*   start                      new trace (forget what was seen)           *)
(*   run  cfg inp out where     one run's output digest                    *)
(*   exc  what                                                             *)
(***************************************************************************)
EXTENDS Naturals, Sequences, TLC, Json, IOUtils
Trace == ndJsonDeserialize(IOEnv.TRACE_FILE)
N == Len(Trace)
VARIABLES l, seenOut
TraceInit == l = 1 /\ seenOut = << >>
TraceNext ==
  /\ l <= N /\ l' = l + 1
  /\ LET e == Trace[l] IN
     IF e.ev = "start" THEN seenOut' = << >>
     ELSE IF e.ev = "run" THEN
       LET k == <<e.cfg, e.inp>> IN
       IF k \in DOMAIN seenOut
       THEN /\ seenOut' = seenOut
            /\ seenOut[k] # e.out => PrintT(<<"FAIL", e.tid, l, "Deterministic">>)
       ELSE seenOut' = (k :> e.out) @@ seenOut
     ELSE seenOut' = seenOut /\ PrintT(<<"FAIL", e.tid, l, "Exception">>)
TraceSpec == TraceInit /\ [][TraceNext]_<<l, seenOut>>
Done == l = N + 1 => PrintT(<<"DONE", N>>)
=============================================================================
