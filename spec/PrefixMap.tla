------------------------------ MODULE PrefixMap ------------------------------
(***************************************************************************)
(* R-module (requirement machine) for netconan's address map.              *)
(*                                                                         *)
(* The map is "some function flip : Prefix -> {0,1}, fixed once per (salt, *)
(* options), with flip = 0 on every node that lies on the path to a        *)
(* preserved prefix".  Any keyed hash is a model of this; nothing about    *)
(* md5, memoisation or naming is said.  C01-C05 and C17 are theorems of    *)
(* this module (checked by TLC as invariants for every flip at small W)    *)
(* and the clause operators at the bottom are what the trace modules use   *)
(* to judge observed <<original, image>> pairs of the real code.           *)
(*                                                                         *)
(* The option vector (width, host bits, preserved prefixes, preserved      *)
(* networks) is part of the state - chosen at Init and never changed - so  *)
(* that one TLC run covers every configuration and one trace file can mix  *)
(* configurations and address families.                                    *)
(***************************************************************************)
EXTENDS Naturals, Sequences, FiniteSets, TLC

CONSTANTS MaxW,      \* largest address width explored
          MaxPins    \* at most this many preserved prefixes + networks

Bit       == {0, 1}
BitSeq(n) == [1..n -> Bit]
Xor(a, b) == (a + b) % 2
Take(s, n) == SubSeq(s, 1, n)
IsPrefixOf(p, a) == Len(p) <= Len(a) /\ Take(a, Len(p)) = p
Min2(a, b) == IF a < b THEN a ELSE b

\* common-prefix length of two sequences (up to the shorter one)
CPL(a, b) ==
  LET n == Min2(Len(a), Len(b))
      D == {i \in 1..n : a[i] # b[i]}
  IN  IF D = {} THEN n ELSE (CHOOSE i \in D : \A j \in D : i <= j) - 1

VARIABLES w,      \* address width in bits
          ps,     \* preserved (host) suffix bits, 0..w
          pins,   \* preserved prefixes: bit sequences of length 0..w
          nets,   \* preserved networks (addresses left untouched in text);
                  \* they count as preserved prefixes too
          flip,   \* the keyed function, chosen once
          keyed,  \* FALSE until the key step has chosen flip
          obs     \* history: set of <<original, image>> pairs revealed so far
cfgvars == <<w, ps, pins, nets>>
vars    == <<w, ps, pins, nets, flip, keyed, obs>>

AW       == w - ps                       \* number of anonymized leading bits
Prefix   == UNION {BitSeq(n) : n \in 0..w}
Addr     == BitSeq(w)
AllPins  == pins \cup nets

\* a node p is pinned when it is a proper prefix of some preserved prefix
PinnedNode(p) == \E q \in AllPins : Len(p) < Len(q) /\ Take(q, Len(p)) = p
FlipDomain    == {p \in Prefix : Len(p) < AW}
FlipOK(f)     == \A p \in DOMAIN f : PinnedNode(p) => f[p] = 0
Flips         == {f \in [FlipDomain -> Bit] : FlipOK(f)}

Img(f, a) == [i \in 1..w |-> IF i <= AW THEN Xor(a[i], f[Take(a, i - 1)]) ELSE a[i]]
\* the inverse walk recomputes each flip from the RECOVERED ORIGINAL prefix
RECURSIVE InvUpTo(_, _, _)
InvUpTo(f, y, n) == IF n = 0 THEN <<>>
                    ELSE LET h == InvUpTo(f, y, n - 1)
                         IN  Append(h, IF n <= AW THEN Xor(y[n], f[h]) ELSE y[n])
Inv(f, y) == InvUpTo(f, y, w)

\* subsets of S with at most k elements (built up element by element: SUBSET S has 2^31 members at width 4)
RECURSIVE SmallSets(_, _)
SmallSets(S, k) == IF k = 0 THEN {{}} ELSE LET R == SmallSets(S, k - 1) IN R \cup {T \cup {x} : T \in R, x \in S}

\* Options are chosen at Init; the key (salt) is chosen by one Key step, after
\* which requests are answered.  (Splitting Init this way also lets TLC spread
\* the flips of one configuration over its workers.)
InitCfg == /\ w \in 1..MaxW
           /\ ps \in 0..w
           /\ \E both \in SmallSets(Prefix, MaxPins) : \E n \in SUBSET both :
                 pins = both \ n /\ nets = n
           /\ obs = {}
Init == InitCfg /\ keyed = FALSE /\ flip = <<>>
Key       == ~keyed /\ keyed' = TRUE /\ flip' \in Flips /\ UNCHANGED <<cfgvars, obs>>
\* one representative flip per configuration (for theorems that do not mention flip)
KeyOne    == ~keyed /\ keyed' = TRUE /\ flip' = (CHOOSE f \in Flips : TRUE) /\ UNCHANGED <<cfgvars, obs>>
\* A family of flips for widths where enumerating every flip is out of reach: constant, one-hot,
\* one-cold, alternating by depth, by last bit - each forced to 0 on pinned nodes
Masked(g)  == [p \in FlipDomain |-> IF PinnedNode(p) THEN 0 ELSE g[p]]
FlipFamily == {Masked(g) : g \in
                 {[p \in FlipDomain |-> c] : c \in Bit}
                 \cup {[p \in FlipDomain |-> IF p = q THEN 1 ELSE 0] : q \in FlipDomain}
                 \cup {[p \in FlipDomain |-> IF p = q THEN 0 ELSE 1] : q \in FlipDomain}
                 \cup {[p \in FlipDomain |-> Len(p) % 2], [p \in FlipDomain |-> (Len(p) + 1) % 2],
                       [p \in FlipDomain |-> IF p = << >> THEN 1 ELSE p[Len(p)]],
                       [p \in FlipDomain |-> IF p = << >> THEN 0 ELSE 1 - p[Len(p)]]}}
KeyFamily == ~keyed /\ keyed' = TRUE /\ flip' \in FlipFamily /\ UNCHANGED <<cfgvars, obs>>
NextFamily == KeyFamily
Anon(a)   == keyed /\ obs' = obs \cup {<<a, Img(flip, a)>>} /\ UNCHANGED <<cfgvars, flip, keyed>>
Deanon(y) == keyed /\ obs' = obs \cup {<<Inv(flip, y), y>>} /\ UNCHANGED <<cfgvars, flip, keyed>>
Request   == \E a \in Addr : Anon(a) \/ Deanon(a)
Next      == Key \/ Request
NextStatic == Key       \* configurations and keys only: for the static theorems
NextLemma  == KeyOne
Spec == Init /\ [][Next]_vars

(***************************************************************************)
(* Theorems = the listed properties.  They are properties of the function  *)
(* Img(flip, .), so TLC evaluates them once per configuration and flip     *)
(* (on initial states; see PrefixMapStatic.cfg).                           *)
(***************************************************************************)
\* C01: common-prefix length preserved, hence injective, hence a permutation
PrefixPreserving == keyed => \A a, b \in Addr : CPL(Img(flip, a), Img(flip, b)) = CPL(a, b)
Permutation      == keyed => {Img(flip, a) : a \in Addr} = Addr
\* C02: exact inverse, both ways round
RoundTrip        == keyed => \A a \in Addr : Inv(flip, Img(flip, a)) = a /\ Img(flip, Inv(flip, a)) = a
\* C04: preserved prefixes (both directions), host bits, independence of the suffix
PinsKept         == keyed => \A q \in AllPins, a \in Addr :
                       IsPrefixOf(q, a) <=> IsPrefixOf(q, Img(flip, a))
SuffixKept       == keyed => \A a \in Addr : \A i \in (AW + 1)..w : Img(flip, a)[i] = a[i]
LeadIndependent  == keyed => \A a, b \in Addr : Take(a, AW) = Take(b, AW)
                       => Take(Img(flip, a), AW) = Take(Img(flip, b), AW)
\* C05: nothing outside a preserved network maps into it (nor is undone into it)
NoCollision      == keyed => \A n \in nets, a \in Addr :
                       /\ ~IsPrefixOf(n, a) => ~IsPrefixOf(n, Img(flip, a))
                       /\ ~IsPrefixOf(n, a) => ~IsPrefixOf(n, Inv(flip, a))
\* C03 at R level: the revealed pairs are always a subset of one function's graph
ObsIsGraph       == keyed => \A e \in obs : e[2] = Img(flip, e[1])
\* C17 at R level: any set of revealed pairs is functional and injective
ObsFunctional    == \A e, g \in obs : (e[1] = g[1]) <=> (e[2] = g[2])

(***************************************************************************)
(* Clause operators used for trace validation.  A trace never shows flip;  *)
(* the observed pairs must be explainable by SOME flip in Flips.  For a    *)
(* set S of pairs that is equivalent to the conjunction of the per-pair /  *)
(* pairwise clauses below (TraceLemma, checked by TLC over all small S in  *)
(* PrefixMapLemma.cfg).                                                    *)
(***************************************************************************)
PairShape(x, y)     == Len(x) = w /\ Len(y) = w
PairSuffix(x, y)    == \A i \in (AW + 1)..w : y[i] = x[i]
\* inside the pin -> its bits are copied; outside -> copied up to and
\* including the first bit where x leaves the pin (only the anonymized part
\* matters here, the suffix is PairSuffix's business)
PairPins(x, y)      == \A q \in AllPins :
                          LET k == CPL(x, q)
                              n == Min2(Min2(k + 1, Len(q)), AW)
                          IN  Take(y, n) = Take(x, n)
PairNets(x, y)      == \A n \in nets : IsPrefixOf(n, y) => IsPrefixOf(n, x)
PairConsistent(x, y, S) == \A o \in S : CPL(x, o[1]) = CPL(y, o[2])

Explainable(S) == \E f \in Flips : \A e \in S : e[2] = Img(f, e[1])
PairwiseOK(S)  == \A e \in S : /\ PairSuffix(e[1], e[2])
                               /\ PairPins(e[1], e[2])
                               /\ PairConsistent(e[1], e[2], S)
\* checked on initial states, for every configuration, over all S of <= 2 pairs
\* (the clauses are pairwise, so two pairs is the general case; 3 in thorough)
CONSTANT LemmaPairs
TraceLemma == keyed => \A S \in SmallSets(Addr \X Addr, LemmaPairs) : PairwiseOK(S) <=> Explainable(S)
=============================================================================
