----------------------------- MODULE FilesImpl -----------------------------
(***************************************************************************)
(* C16 - implementation-shaped machine (M) of anonymize_files():           *)
(*   Walk          os.walk pairs every name not starting with "." with the *)
(*                 mirrored output path (files below dot-directories       *)
(*                 included; listing order is arbitrary)                   *)
(*   ProcessOk     parents made on demand, output opened "w", stream       *)
(*                 routine writes the anonymized text                      *)
(*   FailDecode    output already opened (and truncated) when reading the  *)
(*                 input raises -> an EMPTY file stays; ERROR record       *)
(*   FailOutIsDir  refused before anything is opened; ERROR record         *)
(*   FailOutDirBlocked  makedirs of the parent fails inside the per-file   *)
(*                 try; ERROR record; nothing written                      *)
(* main(), the single-file form (file list = one pair) and                 *)
(* FileAnonymizer.anonymize_file are the same machine with a one-element   *)
(* list (the last one reports by raising instead of logging).              *)
(*                                                                         *)
(* Checked: M => R (PROPERTY RSpecP: every M step is an R step or leaves   *)
(* R's variables alone) and R's theorems as invariants of M, for every     *)
(* scenario and every listing order.  M also predicts the outcome of each  *)
(* generated scenario (FilesGen); a disagreement between that prediction   *)
(* and the real code is DRIFT, never a verdict.                            *)
(***************************************************************************)
EXTENDS Files

CONSTANT AllOrders     \* TRUE: every listing order; FALSE: one fixed order
VARIABLES order,       \* [Copy -> Seq(files)]  rest of the file list
          pc           \* [Copy -> {"start", "loop", "done"}]
mvars == <<rvars, order, pc>>

Orders(S) == LET n == Cardinality(S)
                 all == {s \in [1..n -> S] : \A i, j \in 1..n : i # j => s[i] # s[j]}
             IN  IF AllOrders THEN all ELSE {CHOOSE s \in all : TRUE}

MInit == RInit /\ order = [c \in Copy |-> << >>] /\ pc = [c \in Copy |-> "start"]

Walk(c) ==
  /\ pc[c] = "start" /\ scn.mode # "none"
  /\ c = "faulty" => pc["base"] = "done"
  /\ \E s \in Orders({k \in scn.files : ~Hidden(k)}) : order' = [order EXCEPT ![c] = s]
  /\ pc' = [pc EXCEPT ![c] = "loop"]
  /\ UNCHANGED rvars

Pop(c, k) == /\ order' = [order EXCEPT ![c] = Tail(@)]
             /\ left' = [left EXCEPT ![c] = @ \ {k}]
             /\ UNCHANGED <<scn, inT, others, pc>>
Cur(c, k) == pc[c] = "loop" /\ order[c] # << >> /\ k = Head(order[c])

ProcessOk(c, k) ==
  /\ Cur(c, k) /\ Fault(c, k) = "none"
  /\ outT' = [outT EXCEPT ![c][k] = Ref(c, k)] /\ UNCHANGED rep /\ Pop(c, k)
FailDecode(c, k) ==
  /\ Cur(c, k) /\ Fault(c, k) = "decode"
  /\ outT' = [outT EXCEPT ![c][k] = <<"EMPTY">>]
  /\ rep' = [rep EXCEPT ![c] = @ \cup {k}] /\ Pop(c, k)
FailOutIsDir(c, k) ==
  /\ Cur(c, k) /\ Fault(c, k) = "outdir"
  /\ UNCHANGED outT
  /\ rep' = [rep EXCEPT ![c] = @ \cup {k}] /\ Pop(c, k)
Finish(c) == /\ pc[c] = "loop" /\ order[c] = << >>
             /\ pc' = [pc EXCEPT ![c] = "done"] /\ UNCHANGED <<rvars, order>>

MPick == RPick /\ UNCHANGED <<order, pc>>
\* parents are made inside the per-file try: a sub-directory that cannot be created
\* fails each file below it on its own, one ERROR record per file, the others go on
FailOutDirBlocked(c, k) ==
  /\ Cur(c, k) /\ Fault(c, k) = "blocked"
  /\ UNCHANGED outT
  /\ rep' = [rep EXCEPT ![c] = @ \cup {k}] /\ Pop(c, k)
MNext == MPick \/ \E c \in Copy : \/ Walk(c) \/ Finish(c)
                         \/ \E k \in scn.files : ProcessOk(c, k) \/ FailDecode(c, k) \/ FailOutIsDir(c, k) \/ FailOutDirBlocked(c, k)
MSpec == MInit /\ [][MNext]_mvars
MDone == \A c \in Copy : pc[c] = "done"
MDoneImpliesDone == MDone => Done

\* what M predicts for the faulty copy (used by FilesGen)
PredOut(k) == LET o == outT["faulty"][k] IN
              IF o = Pre("faulty", k) THEN "PRE" ELSE IF o = Ref("faulty", k) THEN "REF"
              ELSE IF o = <<"EMPTY">> THEN "EMPTY" ELSE "OTHER"
=============================================================================
