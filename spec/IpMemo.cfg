CONSTANTS MaxW = 2  MaxPins = 2
SPECIFICATION Spec
VIEW view
INVARIANT NoErr
INVARIANT MemoSound
INVARIANT MemoBijective
PROPERTY RespondsLikeR
CHECK_DEADLOCK FALSE
