CONSTANTS Keys = {k1, k2, k3}  Pseudos = {p1, p2, p3}
SPECIFICATION Spec
INVARIANT InjectiveInv
PROPERTY GrowOnly
CHECK_DEADLOCK FALSE
