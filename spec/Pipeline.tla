------------------------------ MODULE Pipeline ------------------------------
(***************************************************************************)
(* R-module for the per-line pipeline (C12, C14, C15) and its trace        *)
(* validation.                                                             *)
(*                                                                         *)
(* A text is a sequence of lines; a line is a sequence of code points      *)
(* INCLUDING its terminator (LF, CR LF, or none on the last line).         *)
(*   Body(l)   the line without its terminator                             *)
(*   Lead / Trail / Tokens of the body (blank-separated)                   *)
(* Every stage maps a line to a line (there is no failure action: C14),    *)
(* stages are applied in the fixed order secrets, IPv6, IPv4, words, AS    *)
(* numbers (C15), and the result of a line keeps (C12):                    *)
(*   - its terminator, leading and trailing white space;                   *)
(*   - the number of tokens; every token that is not a sensitive item      *)
(*     (the generator tells which positions are sensitive);                *)
(*   - the inner white space too, unless the secret or word stage is on    *)
(*     (those may collapse inner runs of blanks to one space).             *)
(*                                                                         *)
(* Trace events:                                                           *)
(*   cfg   collapse clauses     feature set of the run (collapse = secret  *)
(*                              or word stage on)                          *)
(*   text  nin nout             a whole text went through: line counts     *)
(*   line  in out sens          one line; sens = sensitive token positions *)
(*   same  what a b             two executions that must agree (C15: multi *)
(*                              feature vs chain; C12: permuted / split    *)
(*                              input; C13: repeated run)                  *)
(*   exc   what                 an exception or an ERROR log (C14)         *)
(***************************************************************************)
EXTENDS Naturals, Sequences, FiniteSets, TLC, Json, IOUtils

IsBlank(c) == c \in {32, 9, 11, 12}
IsEolChar(c) == c \in {10, 13}
\* terminator: LF, CR LF, or nothing
Eol(l) == IF Len(l) >= 2 /\ l[Len(l) - 1] = 13 /\ l[Len(l)] = 10 THEN <<13, 10>>
          ELSE IF Len(l) >= 1 /\ l[Len(l)] = 10 THEN <<10>> ELSE << >>
Body(l) == SubSeq(l, 1, Len(l) - Len(Eol(l)))
NonBlank(s) == {i \in 1..Len(s) : ~IsBlank(s[i])}
MinOf(S) == CHOOSE x \in S : \A y \in S : x <= y
MaxOf(S) == CHOOSE x \in S : \A y \in S : x >= y
Lead(s)  == IF NonBlank(s) = {} THEN s ELSE SubSeq(s, 1, MinOf(NonBlank(s)) - 1)
Trail(s) == IF NonBlank(s) = {} THEN << >> ELSE SubSeq(s, MaxOf(NonBlank(s)) + 1, Len(s))
TokStarts(s) == {i \in 1..Len(s) : ~IsBlank(s[i]) /\ (i = 1 \/ IsBlank(s[i - 1]))}
TokEnd(s, i) == MinOf({j \in i..Len(s) : j = Len(s) \/ IsBlank(s[j + 1])})
RECURSIVE SortNat(_)
SortNat(S) == IF S = {} THEN << >> ELSE LET m == MinOf(S) IN <<m>> \o SortNat(S \ {m})
Starts(s) == SortNat(TokStarts(s))
Tokens(s) == LET st == Starts(s) IN [k \in 1..Len(st) |-> SubSeq(s, st[k], TokEnd(s, st[k]))]
\* the blanks between token k and token k+1
Gaps(s) == LET st == Starts(s) IN [k \in 1..(Len(st) - 1) |-> SubSeq(s, TokEnd(s, st[k]) + 1, st[k + 1] - 1)]

LineVerdict(in, out, sens, collapse) ==
  LET bi == Body(in)  bo == Body(out) IN
  IF \E i \in 1..Len(bo) : IsEolChar(bo[i]) THEN "LineBroken"          \* one line in, one line out
  ELSE IF Eol(in) # Eol(out) THEN "Terminator"
  ELSE IF NonBlank(bi) = {} THEN (IF bo = bi THEN "ok" ELSE "BlankLine")
  ELSE IF Lead(bi) # Lead(bo) THEN "Lead"
  ELSE IF Trail(bi) # Trail(bo) THEN "Trail"
  ELSE IF Len(Tokens(bi)) # Len(Tokens(bo)) THEN "TokenCount"
  ELSE IF \E k \in 1..Len(Tokens(bi)) : k \notin sens /\ Tokens(bi)[k] # Tokens(bo)[k] THEN "TokenKept"
  ELSE IF ~collapse /\ Gaps(bi) # Gaps(bo) THEN "InnerSpace"
  ELSE IF collapse /\ \E k \in 1..Len(Gaps(bi)) : Gaps(bo)[k] # Gaps(bi)[k] /\ Gaps(bo)[k] # <<32>> THEN "InnerSpace"
  ELSE "ok"

Trace == ndJsonDeserialize(IOEnv.TRACE_FILE)
N     == Len(Trace)
VARIABLES l, cls, collapse
tvars == <<l, cls, collapse>>
ToSet(s) == {s[i] : i \in 1..Len(s)}
On(v) == IF v \in {"LineBroken", "Terminator", "BlankLine", "Lead", "Trail", "TokenCount", "TokenKept", "InnerSpace"}
         THEN "Structure" \in cls ELSE TRUE

TraceInit == l = 1 /\ cls = {} /\ collapse = FALSE
TraceNext ==
  /\ l <= N /\ l' = l + 1
  /\ LET e == Trace[l] IN
     IF e.ev = "cfg" THEN cls' = ToSet(e.clauses) /\ collapse' = e.collapse
     ELSE /\ UNCHANGED <<cls, collapse>>
          /\ IF e.ev = "line" THEN
               LET v == LineVerdict(e.in, e.out, ToSet(e.sens), collapse) IN
               (v # "ok" /\ On(v)) => PrintT(<<"FAIL", e.tid, l, v>>)
             ELSE IF e.ev = "text" THEN
               (e.nin # e.nout /\ "Structure" \in cls) => PrintT(<<"FAIL", e.tid, l, "LineCount">>)
             ELSE IF e.ev = "same" THEN
               (e.a # e.b /\ ("Same" \o e.what) \in cls) => PrintT(<<"FAIL", e.tid, l, "Same" \o e.what>>)
             ELSE PrintT(<<"FAIL", e.tid, l, "Exception">>)
TraceSpec == TraceInit /\ [][TraceNext]_tvars
Done == l = N + 1 => PrintT(<<"DONE", N>>)
=============================================================================
