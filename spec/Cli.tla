--------------------------------- MODULE Cli ---------------------------------
(***************************************************************************)
(* C19 - the command-line contract of netconan, requirement level (R).     *)
(*                                                                         *)
(* An option vector says, for each of the 14 options, what stands on the   *)
(* command line and what stands in the config file:                        *)
(*     v.cli[o], v.cfg[o]   value token, or None = "-" (not given there)   *)
(* Flags:   cli in {None,"on"}; cfg in {None,"true","false"}.              *)
(* Valued:  tokens of Dom[o] (the harness owns the token -> text table;    *)
(*          "EMPTY" is the empty string; host-bit tokens are interpreted   *)
(*          by HbVal; list tokens by Items).                               *)
(*                                                                         *)
(* What the property says, and nothing more:                               *)
(*  - precedence: the effective value of an option is the command-line     *)
(*    value if given there, else the config-file value, else "not given";  *)
(*    everything below is a function of the effective values only          *)
(*    ("options behave identically in either place, command line wins");   *)
(*  - MustReject: missing input/output, undo without salt, undo with       *)
(*    anonymize-ips, dump without anonymize-ips, host bits outside 0..32   *)
(*    -> main must not complete normally and nothing may have been written *)
(*  - no anonymization option (none of a, p, u, w, n) -> nothing written;  *)
(*  - otherwise the run is the library run with Params(v): defaults are    *)
(*    8 host bits for BOTH families and the class + private prefixes;      *)
(*    --preserve-private-addresses adds the three RFC 1918 networks to     *)
(*    the preserved addresses (sets: listing them is the same thing).      *)
(*                                                                         *)
(* A salt that is given - even the empty string - is a salt: "undo without  *)
(* salt" means no salt option at all, a run with salt "" is the library    *)
(* run with salt "" (repeatable, byte for byte), and undoing with the salt *)
(* that anonymized restores the addresses (RoundTripVerdict; the library-  *)
(* level statement is C02, here it pins the CLI's handling of the salt).   *)
(*                                                                         *)
(* Don't-care regions (either outcome accepted):                           *)
(*  - an unusable value in the config file (host bits out of range, empty  *)
(*    input/output) that the command line overrides with a usable one      *)
(*    (MayReject): reject, or decide normally;                             *)
(*  - the exit status / exception type of a rejection (any abnormal        *)
(*    completion) and the completion status of a NoOutput run;             *)
(*  - outputs of runs without a salt are not compared (random salt);       *)
(*  - whether a dump file or other files appear on a valid run is judged   *)
(*    only through the equality of all created bytes within a class.       *)
(***************************************************************************)
EXTENDS Integers, Sequences, FiniteSets, TLC

None   == "-"
Flags  == {"a", "p", "u", "pv"}
Valued == {"i", "o", "s", "d", "w", "n", "r", "pp", "pa", "hb"}
Opts   == Flags \cup Valued
\*  a  --anonymize-ips          i  --input            w  --sensitive-words
\*  p  --anonymize-passwords    o  --output           n  --as-numbers
\*  u  --undo                   s  --salt             r  --reserved-words
\*  pv --preserve-private-      d  --dump-ip-map      pp --preserve-prefixes
\*       addresses              hb --preserve-host-bits   pa --preserve-addresses

Dom == [ i  |-> {"in1", "in2", "EMPTY"},
         o  |-> {"out1", "out2", "EMPTY"},
         s  |-> {"s1", "s2", "EMPTY"},   \* the empty string is a salt like any other
         d  |-> {"map1", "map2"},
         w  |-> {"w1", "w2"},
         n  |-> {"n1", "n2"},
         r  |-> {"r1", "r2", "r3"},       \* r2, r3 contain capitals (the secrets stage compares exactly)
         pp |-> {"pp1", "pp2", "ppdef"},
         pa |-> {"pa1", "parfc", "pamix"},
         hb |-> {"m1", "h0", "h8", "h17", "h32", "h33"} ]
HbVal == [ m1 |-> -1, h0 |-> 0, h8 |-> 8, h17 |-> 17, h32 |-> 32, h33 |-> 33 ]

Classes         == {"0.0.0.0/1", "128.0.0.0/2", "192.0.0.0/3", "224.0.0.0/4"}
RFC1918         == {"10.0.0.0/8", "172.16.0.0/12", "192.168.0.0/16"}
DefaultPrefixes == Classes \cup RFC1918
DefaultHostBits == 8
Items == [ pp1   |-> {"192.168.2.0/24"},
           pp2   |-> {"12.0.0.0/8", "192.0.0.0/3"},
           ppdef |-> DefaultPrefixes,
           pa1   |-> {"11.11.0.0/16", "111.111.111.111", "10.9.8.7"},
           parfc |-> RFC1918,
           pamix |-> {"11.11.0.0/16", "111.111.111.111", "10.9.8.7"} \cup RFC1918 ]

\* How an option given on the command line is spelled (v.sp[o]; None when the
\* option is not on the command line).  Every legal spelling is the same option:
\*   long  --as-numbers V     eq     --as-numbers=V     short -n V    glued -nV
\*   abbr  --as-num V         abbreq --as-num=V         (unambiguous prefixes)
\*   any   the harness picks one of long / eq / short (seeded)
\* Flags: long, short, abbr.  pp pa pv hb have no short form.  The empty string
\* cannot be glued.  Decision and Params do not depend on the spelling; the only
\* freedom: an implementation may refuse abbreviations altogether (MayReject).
Shortless == {"pp", "pa", "pv", "hb"}
Spells(o) == (IF o \in Flags THEN {"long", "short", "abbr"}
              ELSE {"long", "eq", "short", "glued", "abbr", "abbreq"})
             \ (IF o \in Shortless THEN {"short", "glued"} ELSE {})
SpellOK(v, o) == IF v.cli[o] = None THEN v.sp[o] = None
                 ELSE /\ v.sp[o] \in Spells(o) \cup {"any"}
                      /\ ~(v.sp[o] = "glued" /\ v.cli[o] = "EMPTY")
UsesAbbrev(v) == \E o \in Opts : v.sp[o] \in {"abbr", "abbreq"}
CliVals(o) == IF o \in Flags THEN {None, "on"} ELSE {None} \cup Dom[o]
CfgVals(o) == IF o \in Flags THEN {None, "true", "false"} ELSE {None} \cup Dom[o]
WellFormed(v) ==
  /\ DOMAIN v.cli = Opts /\ DOMAIN v.cfg = Opts
  /\ DOMAIN v.sp = Opts
  /\ \A o \in Opts : v.cli[o] \in CliVals(o) /\ v.cfg[o] \in CfgVals(o) /\ SpellOK(v, o)

\* ---- precedence ---------------------------------------------------------
Eff(v, o)     == IF v.cli[o] # None THEN v.cli[o] ELSE v.cfg[o]
On(v, f)      == Eff(v, f) \in {"on", "true"}
Given(v, o)   == Eff(v, o) # None
Missing(v, o) == Eff(v, o) \in {None, "EMPTY"}
HbBad(t)      == t # None /\ HbVal[t] \notin 0..32

\* ---- validation -----------------------------------------------------------
Reasons(v) ==
     (IF Missing(v, "i") THEN {"missing-input"} ELSE {})
  \cup (IF Missing(v, "o") THEN {"missing-output"} ELSE {})
  \cup (IF On(v, "u") /\ ~Given(v, "s") THEN {"undo-without-salt"} ELSE {})
  \cup (IF On(v, "u") /\ On(v, "a") THEN {"undo-with-anonymize"} ELSE {})
  \cup (IF Given(v, "d") /\ ~On(v, "a") THEN {"dump-without-ip-anonymization"} ELSE {})
  \cup (IF HbBad(Eff(v, "hb")) THEN {"host-bits-out-of-range"} ELSE {})
MustReject(v) == Reasons(v) # {}
\* don't-care: an unusable config-file value (host bits out of range, empty
\* input/output) that the command line overrides with a usable one - an
\* implementation may validate each source on its own
MayReject(v)  == \/ MustReject(v) \/ HbBad(v.cfg["hb"]) \/ v.cfg["i"] = "EMPTY" \/ v.cfg["o"] = "EMPTY"
                 \/ UsesAbbrev(v)   \* don't-care: abbreviations refused as a whole (but if accepted: same option)
AnyAnon(v)    == On(v, "a") \/ On(v, "p") \/ On(v, "u") \/ Given(v, "w") \/ Given(v, "n")
Decision(v)   == IF MustReject(v) THEN "Reject" ELSE IF ~AnyAnon(v) THEN "NoOutput" ELSE "Run"

\* ---- the library run a valid vector stands for ------------------------------
HostBits(v) == IF Given(v, "hb") THEN HbVal[Eff(v, "hb")] ELSE DefaultHostBits
Params(v) ==
  [ input    |-> Eff(v, "i"),  output   |-> Eff(v, "o"),
    pwd      |-> On(v, "p"),   ip       |-> On(v, "a"),   undo |-> On(v, "u"),
    salt     |-> Eff(v, "s"),  dump     |-> Eff(v, "d"),
    words    |-> Eff(v, "w"),  asn      |-> Eff(v, "n"),  reserved |-> Eff(v, "r"),
    prefixes |-> IF Given(v, "pp") THEN Items[Eff(v, "pp")] ELSE DefaultPrefixes,
    nets     |-> (IF Given(v, "pa") THEN Items[Eff(v, "pa")] ELSE {})
                 \cup (IF On(v, "pv") THEN RFC1918 ELSE {}),
    hb4      |-> HostBits(v),  hb6      |-> HostBits(v) ]
\* outputs of two valid vectors must be byte-identical when their Params are
\* equal and a salt is given (without a salt the run draws a random one)
Comparable(v) == Given(v, "s")

\* ---- observations and their verdict (total: names the first failing clause) ---
\* outcome: "return" | "exit0" (SystemExit 0/None) | "exit" (SystemExit, other
\*          status) | "exc" (any other exception) | anything else (crash, timeout)
\* created: subset of {"out","dump","other"} - what exists afterwards that did
\*          not exist before;   intact: the input tree is byte-identical
Normal   == {"return", "exit0"}
Abnormal == {"exit", "exc"}
Verdict(v, outcome, created, intact) ==
  IF outcome \notin Normal \cup Abnormal THEN "Crashed"
  ELSE IF MustReject(v) THEN
         (IF outcome \notin Abnormal THEN "NotRejected"
          ELSE IF created # {} \/ ~intact THEN "WroteBeforeReject" ELSE "ok")
  ELSE IF MayReject(v) /\ outcome \in Abnormal THEN
         (IF created # {} \/ ~intact THEN "WroteBeforeReject" ELSE "ok")
  ELSE IF ~AnyAnon(v) THEN
         (IF created # {} \/ ~intact THEN "WroteWithoutAnonymizationOption" ELSE "ok")
  ELSE IF outcome \notin Normal THEN "ValidVectorRejected"
  ELSE IF "out" \notin created THEN "NothingWritten"
  ELSE "ok"

\* main -a -s X -i IN -o MID ; main -u -s X -i MID -o OUT  (two fresh processes,
\* the salt option in the same place both times): both must complete normally
\* and OUT must be IN again.  (Inputs whose image is mask-shaped are excluded
\* by C02; the harness material has none.)
RoundTripVerdict(o1, o2, restored) ==
  IF o1 \notin Normal \/ o2 \notin Normal THEN "RoundTripRunRejected"
  ELSE IF ~restored THEN "UndoWithGivenSaltDoesNotRestore" ELSE "ok"

\* ---- theorems of R (checked by TLC over the model space, see CliImpl) --------
Flip(v, o, c, f) == [v EXCEPT !.cli[o] = c, !.cfg[o] = f]
\* the same effective value in either place or both (command line winning) is the same vector
PlacementIrrelevant(v) ==
  \A o \in Opts : \A x \in CfgVals(o) :
     (Eff(v, o) # None /\ (o \in Flags => On(v, o))) =>
       LET e == Eff(v, o)
           viaCli == Flip(v, o, IF o \in Flags THEN "on" ELSE e, x)
           viaCfg == Flip(v, o, None, IF o \in Flags THEN "true" ELSE e)
       IN  /\ Decision(viaCli) = Decision(v) /\ Decision(viaCfg) = Decision(v)
           /\ Params(viaCli) = Params(v)     /\ Params(viaCfg) = Params(v)
DefaultsApply(v) ==
  /\ ~Given(v, "hb") => Params(v).hb4 = 8 /\ Params(v).hb6 = 8
  /\ Given(v, "hb")  => Params(v).hb4 = Params(v).hb6
  /\ ~Given(v, "pp") => Params(v).prefixes = Classes \cup RFC1918
  /\ Params(v) = Params(Flip(v, "pp", "ppdef", None)) \/ Given(v, "pp")
  /\ Params(v) = Params(Flip(v, "hb", "h8", None)) \/ Given(v, "hb")
PrivateIsListing(v) ==
  On(v, "pv") =>
    LET off == Flip(v, "pv", None, None) IN
    /\ ~Given(v, "pa")       => Params(v) = Params(Flip(off, "pa", "parfc", None))
    /\ Eff(v, "pa") = "pa1"  => Params(v) = Params(Flip(off, "pa", "pamix", None))
    /\ Decision(v) = Decision(off)
ListedRejects(v) ==
  /\ (Missing(v, "i") \/ Missing(v, "o")) => Decision(v) = "Reject"
  /\ (On(v, "u") /\ ~Given(v, "s")) => Decision(v) = "Reject"
  /\ (On(v, "u") /\ On(v, "a")) => Decision(v) = "Reject"
  /\ (Given(v, "d") /\ ~On(v, "a")) => Decision(v) = "Reject"
  /\ (Given(v, "hb") /\ HbVal[Eff(v, "hb")] \notin 0..32) => Decision(v) = "Reject"
  /\ Decision(v) = "Reject" => \A oc \in Normal : \A cr \in SUBSET {"out", "dump", "other"} :
        Verdict(v, oc, cr, TRUE) # "ok"
  /\ Decision(v) # "Run" => \A oc \in Normal \cup Abnormal : \A cr \in (SUBSET {"out", "dump", "other"}) \ {{}} :
        Verdict(v, oc, cr, TRUE) # "ok"
  /\ Decision(v) = "Run" /\ ~MayReject(v) => \A cr \in SUBSET {"out", "dump", "other"} :
        /\ Verdict(v, "exit", cr, TRUE) # "ok" /\ Verdict(v, "exc", cr, TRUE) # "ok"
        /\ "out" \notin cr => Verdict(v, "return", cr, TRUE) # "ok"
EmptySaltIsASalt(v) ==
  Eff(v, "s") = "EMPTY" => /\ "undo-without-salt" \notin Reasons(v)
                           /\ Comparable(v)
                           /\ Decision(v) = Decision(Flip(v, "s", "s1", None))
                           /\ Params(v).salt = "EMPTY"
SpellingIrrelevant(v) ==
  \A o \in Opts : v.cli[o] # None =>
     \A x \in Spells(o) : LET y == [v EXCEPT !.sp[o] = x] IN
        /\ Decision(y) = Decision(v) /\ Params(y) = Params(v) /\ Reasons(y) = Reasons(v)
        /\ (~UsesAbbrev(y) /\ ~UsesAbbrev(v)) => MayReject(y) = MayReject(v)
RTheorems(v) == SpellingIrrelevant(v) /\ EmptySaltIsASalt(v) /\ PlacementIrrelevant(v) /\ DefaultsApply(v) /\ PrivateIsListing(v) /\ ListedRejects(v)
=============================================================================
