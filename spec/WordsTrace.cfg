CONSTANTS MaxTok = 1
SPECIFICATION TraceSpec
INVARIANT Done
CHECK_DEADLOCK FALSE
