CONSTANTS Dirs = {0}  DotDir = 3  Names = {"a"}  MaxFiles = 1  WithEnv = FALSE  WithSingle = FALSE
SPECIFICATION TraceSpec
INVARIANT TraceDone
CHECK_DEADLOCK FALSE
