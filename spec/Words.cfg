CONSTANTS MaxTok = 4
INIT Init
NEXT Next
INVARIANT MRefinesR
INVARIANT NoSurvivorThm
CHECK_DEADLOCK FALSE
