------------------------------ MODULE WordsGen ------------------------------
(***************************************************************************)
(* Configurations for C10: every list of 1..MaxWords sensitive words from  *)
(* a vocabulary with prefix / substring / case relations (all words obey   *)
(* the property's side condition: first and last letter outside a-f, no    *)
(* run of six hex digits), every set of <= MaxResv user reserved words,    *)
(* and the tokens that are interesting for that configuration.  One JSON   *)
(* line per configuration; the harness builds lines from the tokens.       *)
(***************************************************************************)
EXTENDS Naturals, Sequences, FiniteSets, TLC, Json, IOUtils
CONSTANTS MaxWords, MaxResv

Vocab == {"kit", "kitten", "itt", "Zur", "ZUR1x", "nyz", "k.t", "zürich", "MALMÖ-hq", "straße"}
\* user reserved words: one contains a listed word, one with capitals, one is itself a listed word
RVocab == {"kitten", "MyCorpkit", "Kit", "zurich", "nyz", "plain"}
\* tokens that embed / vary each word
TokensOf(w) ==
  CASE w = "kit"    -> {"kit", "KIT", "Kit", "xkitx", "kit1", "kitkit", "ki", "k-it", "kit,", "(kit)"}
    [] w = "kitten" -> {"kitten", "KITTEN", "Kitten", "kittens", "xkittenx", "kitte", "kittenkit"}
    [] w = "itt"    -> {"itt", "mitt", "ITT", "kitt", "bittern"}
    [] w = "Zur"    -> {"zur", "Zur", "ZUR", "zurich", "Zurich", "azure", "zur1x"}
    [] w = "ZUR1x"  -> {"ZUR1x", "zur1x", "zur1xy", "Zur1X"}
    [] w = "nyz"    -> {"nyz", "NYZ", "nyzlax", "xnyz", "ny"}
    [] w = "k.t"    -> {"k.t", "kat", "K.T", "xk.tx"}
    [] w = "zürich" -> {"zürich", "Zürich", "ZÜRICH", "xZÜRICHx", "zurich"}
    [] w = "MALMÖ-hq" -> {"MALMÖ-hq", "malmö-hq", "Malmö-HQ-1", "MALMO-hq"}
    [] w = "straße" -> {"straße", "Straße", "STRAßE-gw", "xstraßex", "strasse", "Hauptstraße7"}      \* a letter that full case folding expands
Fixed == {"interface", "Interface", "description", "MyCorpkit", "mycorpkit", "plain", "Plain", "10.1.1.1", "permit", "kitchen"}

VARIABLES cfg
Init == \E W \in SUBSET Vocab : \E R \in SUBSET RVocab :
          /\ Cardinality(W) \in 1..MaxWords /\ Cardinality(R) <= MaxResv
          /\ cfg = [words |-> W, reserved |-> R, tokens |-> UNION {TokensOf(w) : w \in W} \cup R \cup Fixed]
Next == UNCHANGED cfg
Spec == Init /\ [][Next]_cfg
Emit == Serialize(ToJson(cfg) \o "\n", IOEnv.OUT_FILE,
                  [format |-> "TXT", charset |-> "UTF-8", openOptions |-> <<"WRITE", "CREATE", "APPEND">>]).exitValue = 0
=============================================================================
