----------------------------- MODULE AsNumTrace -----------------------------
(***************************************************************************)
(* Trace validation of netconan's AS-number anonymization against the      *)
(* R part of AsNum.tla (real block table).                                 *)
(*                                                                         *)
(* One ndjson file (env TRACE_FILE) holds many traces; each starts with    *)
(* "start".  Events are public-call returns of the real code:              *)
(*   new   inst salt list outcome      an anonymizer was constructed with  *)
(*                                     this salt and list (list entries    *)
(*                                     as digit sequences); outcome "ok",  *)
(*                                     "ValueError" or "other:<type>"      *)
(*   anon  inst pairs learn outcome    anonymize(n) returned r, for each   *)
(*                                     <<n, r>> of pairs (n digits, r as   *)
(*                                     character codes)                    *)
(*   line  inst in out outcome         a line went in, a line came out     *)
(*                                     (character codes)                   *)
(*   exc   what                        anything else escaped (never        *)
(*                                     accepted)                           *)
(* All instances of one trace may live in different processes, be created  *)
(* in any order and hold different lists: the replacement of n under salt  *)
(* s is learned once (asMap[s][n]) and every later observation must agree. *)
(* salt is an opaque string (api level + hex of the bytes): TLC only tests *)
(* equality, so nothing is demanded across different salts, nor between    *)
(* the salt given to FileAnonymizer and the one given to the class.        *)
(*                                                                         *)
(* Verdicts are total: every event is consumed; a rejected event prints    *)
(* <<"FAIL", tid, line-in-file, clause>> (clause = name of the first       *)
(* failing R clause, "@k" = index of the offending pair) and the rest of   *)
(* its trace is skipped.                                                   *)
(***************************************************************************)
EXTENDS AsNum, Json, IOUtils

Trace == ndJsonDeserialize(IOEnv.TRACE_FILE)
N     == Len(Trace)

VARIABLES l,       \* next event
          skip,    \* trace id being skipped after a rejection (0 = none)
          insts,   \* instance id -> [salt, L, live]
          asMap    \* salt -> (number -> replacement), learned
tvars == <<l, skip, insts, asMap>>

ToSet(s) == {s[i] : i \in 1..Len(s)}
Known(salt) == IF salt \in DOMAIN asMap THEN asMap[salt] ELSE << >>
SetKnown(salt, k) == [s \in DOMAIN asMap \cup {salt} |-> IF s = salt THEN k ELSE asMap[s]]

TraceInit == l = 1 /\ skip = 0 /\ insts = << >> /\ asMap = << >>

Reject(e, c) == PrintT(<<"FAIL", e.tid, l, c>>) /\ skip' = e.tid /\ UNCHANGED <<insts, asMap>>
Accept       == UNCHANGED <<skip, insts, asMap>>

StepNew(e) ==
  LET scope == \A i \in 1..Len(e.list) : Listable(e.list[i])
      rec   == [salt |-> e.salt, L |-> ToSet(e.list), live |-> scope /\ e.outcome = "ok"]
  IN IF scope /\ e.outcome # "ok" /\ ~(Len(e.list) = 0 /\ e.outcome = "ValueError")
     THEN Reject(e, "ConstructorRefusedValidList")      \* an empty list may be refused with ValueError (don't-care)
     ELSE insts' = (e.inst :> rec) @@ insts /\ UNCHANGED <<skip, asMap>>

\* pairs judged in order; the first failing one names the verdict.  Small
\* events (e.learn) teach asMap; bulk events (thousands of pairs, ~e.learn)
\* are judged pair by pair against what is already known plus a
\* within-event single-valuedness test, and teach nothing.
RECURSIVE PairsVerdict(_, _, _, _)
PairsVerdict(L, pairs, k, known) ==
  IF k > Len(pairs) THEN [clause |-> "ok", known |-> known]
  ELSE LET n == pairs[k][1]
           r == pairs[k][2]
       IN IF n \notin L THEN PairsVerdict(L, pairs, k + 1, known)        \* not a listed number: don't-care
          ELSE LET v == ReplVerdict(n, r, known) IN
               IF v # "ok" THEN [clause |-> v \o "@" \o ToString(k), known |-> known]
               ELSE PairsVerdict(L, pairs, k + 1, Learn(known, n, r))

BulkVerdict(L, pairs, known) ==
  LET K   == {k \in 1..Len(pairs) : pairs[k][1] \in L}
      bad == {k \in K : ReplVerdict(pairs[k][1], pairs[k][2], known) # "ok"}
      S   == {<<pairs[k][1], Norm(pairs[k][2])>> : k \in K \ bad}
  IN IF bad # {}
     THEN LET k == Min(bad) IN ReplVerdict(pairs[k][1], pairs[k][2], known) \o "@" \o ToString(k)
     ELSE IF Cardinality(S) # Cardinality({p[1] : p \in S})
     THEN LET k == Min({j \in K : \E i \in K : i < j /\ pairs[i][1] = pairs[j][1]
                                                   /\ Norm(pairs[i][2]) # Norm(pairs[j][2])})
          IN "NotAFunctionOfSaltAndNumber@" \o ToString(k)
     ELSE "ok"

StepAnon(e) ==
  LET i == insts[e.inst] IN
  IF ~i.live THEN Accept
  ELSE IF e.outcome # "ok" THEN Reject(e, "Exception")
  ELSE IF e.learn
  THEN LET v == PairsVerdict(i.L, e.pairs, 1, Known(i.salt)) IN
       IF v.clause # "ok" THEN Reject(e, v.clause)
       ELSE asMap' = SetKnown(i.salt, v.known) /\ UNCHANGED <<skip, insts>>
  ELSE LET c == BulkVerdict(i.L, e.pairs, Known(i.salt)) IN
       IF c # "ok" THEN Reject(e, c) ELSE Accept

StepLine(e) ==
  LET i == insts[e.inst] IN
  IF ~i.live THEN Accept
  ELSE IF e.outcome # "ok" THEN (IF OutOfScopeLine(e.in) THEN Accept ELSE Reject(e, "Exception"))
  ELSE LET v == LineVerdict(i.L, e.in, e.out, Known(i.salt)) IN
       IF v.clause # "ok" THEN Reject(e, v.clause)
       ELSE asMap' = SetKnown(i.salt, v.known) /\ UNCHANGED <<skip, insts>>

TraceNext ==
  /\ l <= N
  /\ l' = l + 1
  /\ LET e == Trace[l] IN
     IF e.ev = "start" THEN skip' = 0 /\ insts' = << >> /\ asMap' = << >>
     ELSE IF e.tid = skip THEN Accept
     ELSE IF e.ev = "new" THEN StepNew(e)
     ELSE IF e.ev = "anon" /\ e.inst \in DOMAIN insts THEN StepAnon(e)
     ELSE IF e.ev = "line" /\ e.inst \in DOMAIN insts THEN StepLine(e)
     ELSE Reject(e, "Exception")

TraceSpec == TraceInit /\ [][TraceNext]_tvars
Done == l = N + 1 => PrintT(<<"DONE", N>>)
=============================================================================
