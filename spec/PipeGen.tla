------------------------------- MODULE PipeGen -------------------------------
(***************************************************************************)
(* Generator and design model of the pipeline (C12, C14, C15).             *)
(*                                                                         *)
(* Abstractly a line is a sequence of ITEMS; an item is plain or belongs   *)
(* to one feature (pwd, v6, v4, word, as).  Stage f rewrites exactly the   *)
(* items of feature f (to the abstract value "f!") and nothing      *)
(* else; Multi(F) applies the stages of F in the fixed order.  TLC checks  *)
(* on every generated text and feature set:                                *)
(*   ChainEqualsMulti   composing single-feature runs in that order gives  *)
(*                      the same result (C15)                              *)
(*   Conserved          line count, order and all plain items are kept,    *)
(*                      and a line's result does not depend on the other   *)
(*                      lines (C12)                                        *)
(* and emits each <features, text> as JSON for the harness, which          *)
(* concretizes the item kinds into real configuration lines.               *)
(***************************************************************************)
EXTENDS Naturals, Sequences, FiniteSets, TLC, Json, IOUtils
CONSTANTS MaxLines

Features == {"pwd", "ip", "word", "as"}
Order == <<"pwd", "v6", "v4", "word", "as">>
StagesOf(F) == [i \in 1..5 |-> (Order[i] \in F) \/ (Order[i] \in {"v6", "v4"} /\ "ip" \in F)]
\* line kinds: which sensitive items a line carries (concretized by the harness)
Kinds == {"blank", "spaces", "plain", "plain-tabs", "pwd", "v4", "v6", "v4-mask", "word", "as", "pwd+v4", "word+as", "v4+as",
          "pwd-looks-like-v4", "word-in-pwd-line", "v6+v4", "crowded",
          "scrubline", "nodigit-pwd", "v4-mask-zeros", "pwd-fixed-quoted", "v6-tail", "pwd-reserved-caps",
          "keystring-scrub", "standby-keystring", "v6-with-word", "resv-word", "key-quoted-twice", "doubled-enclosers", "edge-unicode-space"}
ItemsOf(k) ==
  CASE k = "blank" -> << >> [] k = "spaces" -> << >> [] k = "plain" -> <<"p", "p", "p">> [] k = "plain-tabs" -> <<"p", "p">>
    [] k = "pwd" -> <<"p", "pwd">> [] k = "v4" -> <<"p", "p", "v4">> [] k = "v6" -> <<"p", "p", "v6">>
    [] k = "v4-mask" -> <<"p", "p", "v4", "p">> [] k = "word" -> <<"p", "word">> [] k = "as" -> <<"p", "p", "as">>
    [] k = "pwd+v4" -> <<"p", "v4", "p", "pwd">> [] k = "word+as" -> <<"p", "as", "p", "word">> [] k = "v4+as" -> <<"p", "as", "p", "v4", "p", "p">>
    [] k = "pwd-looks-like-v4" -> <<"p", "pwd">> [] k = "word-in-pwd-line" -> <<"p", "word", "p", "pwd">> [] k = "v6+v4" -> <<"p", "v6", "p", "v4">>
    [] k = "crowded" -> <<"word", "v4", "as", "v6", "p", "pwd">>
    [] k = "scrubline" -> <<"p", "v4", "word", "as", "p", "p", "pwd">>       \* a scrub-mode syntax after other items
    [] k = "nodigit-pwd" -> <<"p", "p", "pwd">>                              \* no digit on the line before the secret stage
    [] k = "v4-mask-zeros" -> <<"p", "v4", "p">>                             \* mask spelled with leading zeros
    [] k = "pwd-fixed-quoted" -> <<"p", "p", "pwd", "p">>                    \* the SAME quoted secret wherever this kind occurs
    [] k = "v6-tail" -> <<"p", "p", "v6">>                                   \* IPv6 with a dotted-quad tail
    [] k = "pwd-reserved-caps" -> <<"p", "p">>                               \* a user reserved word (with capitals) in secret position
    [] k = "keystring-scrub" -> <<"p", "p", "pwd">>                          \* only a late scrub-mode pattern matches
    [] k = "standby-keystring" -> <<"p", "p", "p", "p", "p", "p", "pwd", "p", "p">>   \* an early precise pattern AND that scrub pattern match
    [] k = "v6-with-word" -> <<"p", "v6">>                                   \* a listed word inside the text of an address
    [] k = "key-quoted-twice" -> <<"p", "pwd", "p", "p", "p", "p">>             \* a quoted secret and a second quoted string later on the line
    [] k = "doubled-enclosers" -> <<"p", "p", "p", "p", "p", "p", "p">>         \* tokens that consist of doubled enclosing characters
    [] k = "edge-unicode-space" -> <<"p", "p">>                               \* form feed / no-break / ideographic space at the line edges
    [] k = "resv-word" -> <<"p", "p", "p">>                                  \* reserved words that CONTAIN a listed word, the last one at the end of the line

Stage(f, items) == [i \in 1..Len(items) |-> IF items[i] = f THEN f \o "!" ELSE items[i]]
RECURSIVE Apply(_, _, _)
Apply(st, i, items) == IF i > 5 THEN items ELSE Apply(st, i + 1, IF st[i] THEN Stage(Order[i], items) ELSE items)
Multi(F, items) == Apply(StagesOf(F), 1, items)
\* chaining single-feature anonymizers in the fixed order
RECURSIVE Chain(_, _, _)
Chain(F, i, items) == IF i > 5 THEN items
                      ELSE Chain(F, i + 1, IF StagesOf(F)[i] THEN Apply([j \in 1..5 |-> j = i], 1, items) ELSE items)

VARIABLES feats, text, eol
gvars == <<feats, text, eol>>
Init == feats \in SUBSET Features /\ text = << >> /\ eol \in {"lf", "crlf", "nofinal"}
Next == Len(text) < MaxLines /\ \E k \in Kinds : text' = Append(text, k) /\ UNCHANGED <<feats, eol>>
Spec == Init /\ [][Next]_gvars

Out(F, t) == [i \in 1..Len(t) |-> Multi(F, ItemsOf(t[i]))]
ChainEqualsMulti == \A i \in 1..Len(text) : Chain(feats, 1, ItemsOf(text[i])) = Multi(feats, ItemsOf(text[i]))
Conserved == /\ Len(Out(feats, text)) = Len(text)
             /\ \A i \in 1..Len(text) : LET it == ItemsOf(text[i]) o == Out(feats, text)[i] IN
                  /\ Len(o) = Len(it)
                  /\ \A j \in 1..Len(it) : it[j] = "p" => o[j] = "p"
                  /\ o = Out(feats, <<text[i]>>)[1]                 \* line locality
Emit == text = << >> \/ Serialize(ToJson([features |-> feats, kinds |-> text, eol |-> eol]) \o "\n", IOEnv.OUT_FILE,
                 [format |-> "TXT", charset |-> "UTF-8", openOptions |-> <<"WRITE", "CREATE", "APPEND">>]).exitValue = 0
=============================================================================
