---------------------------- MODULE JuniperTrace ----------------------------
(***************************************************************************)
(* Trace validation of the real $9$ codec against Juniper.tla.             *)
(*   enc  salt plain magic body          juniper_nonrandom_encrypt returned *)
(*   dec  magic body outcome plain       juniper_decrypt returned / raised  *)
(*   exc  what                           anything else escaped              *)
(* Text is given as alphabet indices (99 = character outside the alphabet) *)
(* and plaintext as code points 0..255.                                    *)
(***************************************************************************)
EXTENDS Juniper, Json, IOUtils

Trace == ndJsonDeserialize(IOEnv.TRACE_FILE)
N     == Len(Trace)
VARIABLES l, skip
tvars == <<vars, l, skip>>

EncVerdict(e) ==
  IF ~Shaped(e.magic, e.body) THEN "EncNotShaped"
  ELSE IF ~WellFormed(e.magic, e.body) THEN "EncTruncated"
  ELSE IF Plain(e.body) # e.plain THEN "EncRoundTrip"
  ELSE "ok"
\* M: the code's encoder output predicted exactly (filler excluded)
EncAsModel(e) == Shaped(e.magic, e.body) =>
  SubSeq(e.body, 2 + Extra(e.body[1]), Len(e.body)) = EncFrom(e.plain, 1, 0, e.body[1])

DecVerdict(e) ==
  IF WellFormed(e.magic, e.body)
  THEN (IF e.outcome # "ok" THEN "DecRefusedWellFormed"
        ELSE IF e.plain # Plain(e.body) THEN "DecWrongPlaintext" ELSE "ok")
  ELSE (IF e.outcome = "ValueError" THEN "ok"
        ELSE IF e.outcome = "ok" THEN "DecAcceptedMalformed" ELSE "DecOtherError")

TraceInit == l = 1 /\ skip = 0 /\ pos = 0 /\ prev = 0 /\ lastPlain = 0 /\ lastGroup = << >>
\* codec calls are independent of each other: nothing is skipped after a rejection
Reject(e, c) == PrintT(<<"FAIL", e.tid, l, c>>) /\ skip' = e.tid
TraceNext ==
  /\ l <= N /\ l' = l + 1 /\ UNCHANGED vars
  /\ LET e == Trace[l] IN
     IF e.ev = "start" THEN skip' = 0
     ELSE LET v == IF e.ev = "enc" THEN EncVerdict(e)
                   ELSE IF e.ev = "dec" THEN DecVerdict(e) ELSE "Exception" IN
          IF v # "ok" THEN Reject(e, v)
          ELSE /\ UNCHANGED skip
               /\ (e.ev = "enc" /\ ~EncAsModel(e)) => PrintT(<<"DRIFT", e.tid, l, "EncAsModel">>)
TraceSpec == TraceInit /\ [][TraceNext]_tvars
Done == l = N + 1 => PrintT(<<"DONE", N>>)
=============================================================================
