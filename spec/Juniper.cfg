SPECIFICATION Spec
VIEW view
INVARIANT TypeOK
PROPERTY StepRoundTrip
CHECK_DEADLOCK FALSE
