------------------------------ MODULE FilesIso ------------------------------
(***************************************************************************)
(* C16, isolation clause against the tree WITHOUT the failing file:        *)
(* "a file that cannot be processed is ... skipped without changing the    *)
(*  output of any other file" - a skipped file behaves as if it was not    *)
(* there.  This matters as soon as the output of a file depends on what    *)
(* was processed before it: pseudonyms are numbered by the size of the     *)
(* password lookup that all files of a run share.                          *)
(*                                                                         *)
(* Model: files 1..N are processed in that order; file k carries its own   *)
(* secrets <<k,1>>, <<k,2>> and the common secret <<0,0>>.  Two copies of  *)
(* the run: "with" (file `bad` is present and fails after `cut` of its     *)
(* secret lines have been handled) and "absent" (file `bad` is not there). *)
(* The output of a file is the sequence of pseudonym numbers it received.  *)
(*                                                                         *)
(* R clause  IsolationVsAbsent : at the end every file other than `bad`    *)
(* has the same output in both copies.                                     *)
(* M: Lazy = FALSE is the code (readlines(): the whole file is decoded     *)
(* before the first line is handled, so cut = 0); Lazy = TRUE is line-by-  *)
(* line reading, where the lines before the undecodable byte's read buffer *)
(* are handled first (cut > 0).  TLC proves the clause for Lazy = FALSE    *)
(* and REFUTES it for Lazy = TRUE (the harness requires that refutation:   *)
(* vacuity guard, and the prediction the scenario family is built on).     *)
(***************************************************************************)
EXTENDS Naturals, Sequences, TLC
CONSTANTS N, Lazy
Copy == {"with", "absent"}
Secrets(k) == << <<k, 1>>, <<0, 0>>, <<k, 2>> >>

VARIABLES bad, cut, pos, lk, out
vars == <<bad, cut, pos, lk, out>>

Index(s, x) == CHOOSE i \in 1..Len(s) : s[i] = x
Known(s, x) == \E i \in 1..Len(s) : s[i] = x
\* handle the first n secret lines of file k: returns <<lookup, numbers>>
RECURSIVE Handle(_, _, _, _)
Handle(look, k, j, n) ==
  IF j > n THEN <<look, << >>>>
  ELSE LET x  == Secrets(k)[j]
           l2 == IF Known(look, x) THEN look ELSE Append(look, x)
           r  == Handle(l2, k, j + 1, n)
       IN  <<r[1], <<Index(l2, x) - 1>> \o r[2]>>

Init == /\ bad \in 1..N
        /\ cut \in (IF Lazy THEN 0..3 ELSE {0})
        /\ pos = [c \in Copy |-> 1] /\ lk = [c \in Copy |-> << >>]
        /\ out = [c \in Copy |-> [k \in 1..N |-> <<"none">>]]
Step(c) ==
  /\ pos[c] <= N
  /\ LET k == pos[c] IN
     IF k = bad
     THEN IF c = "absent" THEN UNCHANGED <<lk, out>>
          ELSE LET r == Handle(lk[c], k, 1, cut) IN      \* fails after `cut` lines; its slot is a don't-care
               /\ lk' = [lk EXCEPT ![c] = r[1]] /\ out' = [out EXCEPT ![c][k] = <<"partial">>]
     ELSE LET r == Handle(lk[c], k, 1, 3) IN
          /\ lk' = [lk EXCEPT ![c] = r[1]] /\ out' = [out EXCEPT ![c][k] = r[2]]
  /\ pos' = [pos EXCEPT ![c] = @ + 1]
  /\ UNCHANGED <<bad, cut>>
Next == \E c \in Copy : Step(c)
Spec == Init /\ [][Next]_vars

Finished == \A c \in Copy : pos[c] = N + 1
IsolationVsAbsent == Finished => \A k \in 1..N : k # bad => out["with"][k] = out["absent"][k]
=============================================================================
