CONSTANT Space = "theorems-small"
SPECIFICATION Spec
INVARIANT TypeOK
INVARIANT WriteOnlyWhenRun
INVARIANT DoneAccepted
INVARIANT CallIsParams
INVARIANT RunCallsLibrary
CHECK_DEADLOCK FALSE
INVARIANT RTheoremsHold
