CONSTANTS Dirs = {0, 1, 2, 3}  DotDir = 3  Names = {"a", "b", "sp", "uni", "dot"}
          MaxFiles = 2  WithEnv = TRUE  WithSingle = TRUE  AllOrders = TRUE
SPECIFICATION MSpec
PROPERTY RSpecP
INVARIANTS TypeOK OneToOne NothingElseWritten InputsUntouched ErrorsNamed Isolation MDoneImpliesDone
CHECK_DEADLOCK FALSE
