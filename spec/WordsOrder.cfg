\* expectation: TLC REFUTES OrderIndependent (overlapping words: result depends on the try order = hash seed)
CONSTANTS MaxTok = 3
INIT Init
NEXT Next
INVARIANT OrderIndependent
CHECK_DEADLOCK FALSE
