----------------------------- MODULE SecretTrace -----------------------------
(***************************************************************************)
(* Trace validation of secret substitution against Secrets.tla.            *)
(*   run   clauses                 a new run (empty lookup)                *)
(*   sec   mode key cls slen orig repl pseudo ocls oslen ctxin ctxout      *)
(*         scrubbed                one secret occurrence of an output line *)
(*   pair  what a b                two executions that must agree (C07:    *)
(*                                 same abstract line, other secret values)*)
(*   exc   what                                                            *)
(* key / pseudo / texts are opaque strings prepared by the projection      *)
(* (independent decoders); TLC only compares them.  Nothing is skipped     *)
(* after a rejection: a rejected occurrence leaves the lookup unchanged.   *)
(***************************************************************************)
EXTENDS Secrets, Json, IOUtils

Trace == ndJsonDeserialize(IOEnv.TRACE_FILE)
N     == Len(Trace)
VARIABLES l, cls
tvars == <<lookup, l, cls>>
ToSet(s) == {s[i] : i \in 1..Len(s)}

SecVerdict(e) ==
  IF e.scrubbed THEN (IF e.mode = "scrub" \/ "ContextKept" \notin cls THEN "ok" ELSE "ScrubbedReplaceForm")
  ELSE IF "Replaced" \in cls /\ e.repl = e.orig THEN "Survived"
  ELSE IF "Consistent" \in cls /\ e.key \in DOMAIN lookup /\ lookup[e.key] # e.pseudo THEN "Consistent"
  ELSE IF "Injective" \in cls /\ e.key \notin DOMAIN lookup /\ e.pseudo \in Range(lookup) THEN "Injective"
  ELSE IF "ClassKept" \in cls /\ ~(e.ocls = e.cls /\ (e.cls = "md5" => e.oslen = e.slen)) THEN "ClassKept"
  ELSE IF "ContextKept" \in cls /\ e.ctxout # e.ctxin THEN "ContextKept"
  ELSE "ok"

TraceInit == l = 1 /\ cls = {} /\ lookup = << >>
TraceNext ==
  /\ l <= N /\ l' = l + 1
  /\ LET e == Trace[l] IN
     IF e.ev = "run" THEN lookup' = << >> /\ cls' = ToSet(e.clauses)
     ELSE IF e.ev = "sec" THEN
       LET v == SecVerdict(e) IN
       /\ cls' = cls
       /\ IF v # "ok" THEN PrintT(<<"FAIL", e.tid, l, v>>) /\ lookup' = lookup
          \* (a secret that was left as it is - a reserved word, a defect listed as finding - stands for itself: no OTHER
          \*  secret may be given that text as its replacement, and it must be left alone again next time)
          ELSE lookup' = IF e.scrubbed \/ e.key \in DOMAIN lookup THEN lookup
                         ELSE (e.key :> e.pseudo) @@ lookup
     ELSE IF e.ev = "pair" THEN
       /\ UNCHANGED <<lookup, cls>>
       /\ (e.a # e.b /\ ("Same" \o e.what) \in cls) => PrintT(<<"FAIL", e.tid, l, "Same" \o e.what>>)
     ELSE UNCHANGED <<lookup, cls>> /\ PrintT(<<"FAIL", e.tid, l, "Exception">>)
TraceSpec == TraceInit /\ [][TraceNext]_tvars
Done == l = N + 1 => PrintT(<<"DONE", N>>)
=============================================================================
