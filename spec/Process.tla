------------------------------- MODULE Process -------------------------------
(***************************************************************************)
(* C13: same salt, options and input give the same output - across         *)
(* repetitions, across interpreter processes with different hash seeds,    *)
(* and whatever anonymizers were constructed earlier in the process.       *)
(*                                                                         *)
(* Processes have a hash seed, a random generator and (M only) module-     *)
(* level state.  Construct(p, c) creates an anonymizer with configuration  *)
(* c; Run(p, k, i) runs input i through the k-th anonymizer of p and       *)
(* records <<configuration, input, output>> in `seen`.                     *)
(* R:  Deterministic - `seen` is single-valued in <<configuration, input>>.*)
(* M:  the output is a function of the configuration and the input PLUS    *)
(*     whatever the three named deviations let through (each reproduces a  *)
(*     defect found on the original tree; all three are repaired now, so   *)
(*     the faithful model has them switched off):                          *)
(*       LeakReserved   user reserved words are added to a module-level    *)
(*                      set and affect anonymizers constructed later       *)
(*       OrderFromSeed  overlapping sensitive words are tried in the       *)
(*                      order of a Python set, i.e. of the hash seed       *)
(*       RandomSha      $6$ replacements draw a random salt                *)
(* TLC proves Deterministic for all histories within the bounds with the   *)
(* deviations off, refutes it with any one of them on (non-vacuity), and   *)
(* emits every history for replay in real interpreter processes.           *)
(***************************************************************************)
EXTENDS Naturals, Sequences, FiniteSets, TLC, Json, IOUtils

CONSTANTS LeakReserved, OrderFromSeed, RandomSha,
          MaxProcs, MaxCons, MaxRuns
Seeds == {0, 1, 2}                           \* 2 stands for PYTHONHASHSEED=random
\* configurations: id, whether its word list has overlapping words, its user reserved words
Cfgs == { [id |-> "full",   overlap |-> TRUE,  resv |-> {}],
          [id |-> "resvA",  overlap |-> FALSE, resv |-> {"a"}],
          [id |-> "other",  overlap |-> TRUE,  resv |-> {"b"}],
          [id |-> "netsX",  overlap |-> FALSE, resv |-> {}],      \* preserved networks, default prefixes
          [id |-> "emptysalt", overlap |-> FALSE, resv |-> {}],   \* the empty string is a salt like any other
          [id |-> "nosalt", overlap |-> FALSE, resv |-> {}] }
\* inputs: which reserved-word candidates occur in it, whether it has a $6$ secret
Inputs == { [id |-> "mixed", mentions |-> {"a", "b"}, sha |-> TRUE],
            [id |-> "plain", mentions |-> {}, sha |-> FALSE] }

VARIABLES procs,     \* sequence of [seed, global, cons (sequence of cfgs), draws]
          seen,      \* set of <<cfg id, input id, output>>
          hist,      \* the history of actions (for replay)
          nruns
vars == <<procs, seen, hist, nruns>>

Init == procs = << >> /\ seen = {} /\ hist = << >> /\ nruns = 0
Spawn(s) == /\ Len(procs) < MaxProcs
            /\ procs' = Append(procs, [seed |-> s, global |-> {}, cons |-> << >>, draws |-> 0])
            /\ hist' = Append(hist, [a |-> "spawn", seed |-> s])
            /\ UNCHANGED <<seen, nruns>>
Construct(p, c) ==
  /\ Len(procs[p].cons) < MaxCons
  /\ procs' = [procs EXCEPT ![p].cons = Append(@, c),
                            ![p].global = IF LeakReserved THEN @ \cup c.resv ELSE @]
  /\ hist' = Append(hist, [a |-> "construct", p |-> p, cfg |-> c.id])
  /\ UNCHANGED <<seen, nruns>>
Output(p, k, i) ==
  LET c == procs[p].cons[k] IN
  [ kept  |-> (IF LeakReserved THEN procs[p].global \cup c.resv ELSE c.resv) \cap i.mentions,
    order |-> IF OrderFromSeed /\ c.overlap THEN procs[p].seed ELSE 0,
    sha   |-> IF RandomSha /\ i.sha THEN procs[p].draws + 10 * p ELSE 0 ]
Run(p, k, i) ==
  /\ nruns < MaxRuns
  /\ seen' = seen \cup {<<procs[p].cons[k].id, i.id, Output(p, k, i)>>}
  /\ procs' = [procs EXCEPT ![p].draws = @ + 1]
  /\ hist' = Append(hist, [a |-> "run", p |-> p, k |-> k, inp |-> i.id])
  /\ nruns' = nruns + 1
Next == \/ \E s \in Seeds : Spawn(s)
        \/ \E p \in 1..Len(procs) : \E c \in Cfgs : Construct(p, c)
        \/ \E p \in 1..Len(procs) : \E k \in 1..Len(procs[p].cons) : \E i \in Inputs : Run(p, k, i)
Spec == Init /\ [][Next]_vars

Deterministic == \A e, f \in seen : (e[1] = f[1] /\ e[2] = f[2]) => e[3] = f[3]
\* histories worth replaying: all runs done
Emit == nruns < MaxRuns \/ Serialize(ToJson([hist |-> hist]) \o "\n", IOEnv.OUT_FILE,
          [format |-> "TXT", charset |-> "UTF-8", openOptions |-> <<"WRITE", "CREATE", "APPEND">>]).exitValue = 0
view == <<procs, seen, nruns>>
=============================================================================
