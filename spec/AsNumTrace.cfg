CONSTANT Bounds <- RealBounds
SPECIFICATION TraceSpec
INVARIANT Done
CHECK_DEADLOCK FALSE
