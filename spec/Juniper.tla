------------------------------ MODULE Juniper ------------------------------
(***************************************************************************)
(* The Juniper $9$ codec as a step machine.                                *)
(*                                                                         *)
(* Characters are indices 0..64 into the 65-character alphabet (the        *)
(* harness maps text <-> indices; 99 stands for any character outside the  *)
(* alphabet).  A ciphertext is  MAGIC, salt character s, Extra[s] filler   *)
(* characters, then one group of characters per plaintext byte; the group  *)
(* for the k-th byte (k from 0) has Len(Weights[k % 7]) characters and     *)
(* encodes the byte as "gaps" between consecutive characters (starting     *)
(* from the previous group's last character; the first group starts from   *)
(* the salt character).                                                    *)
(*                                                                         *)
(* R (what C18 states): decoding any group produced for byte c in state    *)
(* <<pos, prev>> yields c  - TLC visits all 7 x 65 states x 256 bytes; by  *)
(* induction on the length this is the round trip for every plaintext and  *)
(* salt.  Malformed strings (no magic, foreign character, fewer than four  *)
(* characters, truncated last group) must be refused.                      *)
(* M: EncGroup is the encoder the code implements (mixed-radix digits of   *)
(* the byte, largest weight last), used to predict ciphertexts exactly.    *)
(***************************************************************************)
EXTENDS Naturals, Sequences, TLC

NA == 65
\* family sizes 15, 20, 20, 10  ->  Extra = 3 - family
Extra(i) == IF i < 15 THEN 3 ELSE IF i < 35 THEN 2 ELSE IF i < 55 THEN 1 ELSE 0
Weights == << <<1, 4, 32>>, <<1, 16, 32>>, <<1, 8, 32>>, <<1, 64>>, <<1, 32>>,
              <<1, 4, 16, 128>>, <<1, 32, 64>> >>
Row(pos) == Weights[(pos % 7) + 1]

\* ---- decoder (R side; independent of the encoder) -------------------------
Gap(c1, c2) == ((c2 + NA) - c1) % NA   \* in 0..64 ; the code's gap is this - 1
\* sum over the group of (gap-1)*weight, taken mod 256.  Gap = 0 (equal
\* characters) means -1: add 256-weight multiples to stay in the naturals.
RECURSIVE GroupSum(_, _, _, _)
GroupSum(prev, grp, row, i) ==
  IF i > Len(grp) THEN 0
  ELSE LET g == Gap(IF i = 1 THEN prev ELSE grp[i - 1], grp[i])
       IN  (((g + 255) * row[i]) + GroupSum(prev, grp, row, i + 1)) % 256
\* (g - 1) * w  ==  (g + 255) * w  (mod 256)
DecodeGroup(prev, grp, row) == GroupSum(prev, grp, row, 1)

\* ---- encoder (M side) ------------------------------------------------------
\* digits of c in the mixed radix given by row, computed from the largest weight down
RECURSIVE Digits(_, _, _)
Digits(c, row, i) ==      \* digits for weights row[1..i], as a sequence of length i
  IF i = 0 THEN << >>
  ELSE Append(Digits(c % row[i], row, i - 1), c \div row[i])
RECURSIVE Chain(_, _, _)
Chain(prev, gaps, i) ==
  IF i > Len(gaps) THEN << >>
  ELSE LET ch == (prev + gaps[i] + 1) % NA IN <<ch>> \o Chain(ch, gaps, i + 1)
EncGroup(prev, c, row) == Chain(prev, Digits(c, row, Len(row)), 1)

\* ---- the step machine ------------------------------------------------------
VARIABLES pos,        \* number of plaintext bytes processed so far, mod 7
          prev,       \* last ciphertext character emitted (initially the salt)
          lastPlain,  \* observation: the byte just encoded
          lastGroup   \* observation: its group
vars == <<pos, prev, lastPlain, lastGroup>>
view == <<pos, prev>>

Init == pos = 0 /\ prev \in 0..(NA - 1) /\ lastPlain = 0 /\ lastGroup = << >>
EncStep(c) ==
  LET g == EncGroup(prev, c, Row(pos)) IN
  /\ lastPlain' = c /\ lastGroup' = g
  /\ prev' = g[Len(g)]
  /\ pos' = (pos + 1) % 7
Next == \E c \in 0..255 : EncStep(c)
Spec == Init /\ [][Next]_vars

\* C18 core: every group decodes to its byte, in every state (action property:
\* evaluated on every one of the 7*65*256 transitions)
StepRoundTrip == [][/\ DecodeGroup(prev, lastGroup', Row(pos)) = lastPlain'
                     /\ Len(lastGroup') = Len(Row(pos))
                     /\ \A i \in 1..Len(lastGroup') : lastGroup'[i] \in 0..(NA - 1)]_vars
TypeOK == pos \in 0..6 /\ prev \in 0..(NA - 1)

\* ---- whole strings (used by the trace module) ------------------------------
\* body = the characters after MAGIC, as indices (99 = foreign character)
RECURSIVE DecFrom(_, _, _, _)
\* returns <<ok, plaintext>> ; ok = FALSE when the last group is truncated
DecFrom(body, i, p, pv) ==
  IF i > Len(body) THEN <<TRUE, << >>>>
  ELSE LET row == Row(p)
           n   == Len(row) IN
       IF i + n - 1 > Len(body) THEN <<FALSE, << >>>>
       ELSE LET grp == SubSeq(body, i, i + n - 1)
                r   == DecFrom(body, i + n, p + 1, grp[n])
            IN  <<r[1], <<DecodeGroup(pv, grp, row)>> \o r[2]>>
AlphabetOK(body) == \A i \in 1..Len(body) : body[i] \in 0..(NA - 1)
Shaped(magic, body) == magic /\ Len(body) >= 4 /\ AlphabetOK(body)
\* the filler may be cut short by the end of the string (then the plaintext is empty)
Decrypt(body) == DecFrom(body, 2 + Extra(body[1]), 0, body[1])
WellFormed(magic, body) == Shaped(magic, body) /\ Decrypt(body)[1]
Plain(body) == Decrypt(body)[2]

\* what the code's encoder emits for a whole plaintext (M)
RECURSIVE EncFrom(_, _, _, _)
EncFrom(pl, i, p, pv) ==
  IF i > Len(pl) THEN << >>
  ELSE LET g == EncGroup(pv, pl[i], Row(p)) IN g \o EncFrom(pl, i + 1, p + 1, g[Len(g)])
=============================================================================
