\* the pairwise trace clauses are equivalent to "some admissible flip explains the pairs"
CONSTANTS MaxW = 2  MaxPins = 2  LemmaPairs = 2
INIT Init
NEXT NextLemma
INVARIANT TraceLemma
CHECK_DEADLOCK FALSE
