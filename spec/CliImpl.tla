------------------------------- MODULE CliImpl -------------------------------
(***************************************************************************)
(* C19 - the step machine of main() built from the M operators of CliM,    *)
(* and the check that it satisfies the requirement module Cli (R):         *)
(* in every state nothing has been written unless R decides "Run"; every   *)
(* terminal observation is accepted by R's Verdict; the library is called  *)
(* with exactly R's Params.  The theorems of R itself (placement does not  *)
(* matter, defaults, private == listing, every listed combination          *)
(* rejects) are evaluated once per vector in the "theorems" spaces.        *)
(***************************************************************************)
EXTENDS CliM

CONSTANT Space   \* name of the vector space to explore (see Placements)

\* ---- the step machine ------------------------------------------------------
NoCall == [none |-> TRUE]
VARIABLES vec, pc, outcome, written, call
vars == <<vec, pc, outcome, written, call>>

\* model spaces: per option a set of <<cli, cfg>> placements
Absent == {<<None, None>>}
FAll   == {<<c, f>> : c \in {None, "on"}, f \in {None, "true", "false"}}
FSome  == {<<None, None>>, <<"on", None>>, <<None, "true">>, <<"on", "false">>}
VAll(o, vals) == {<<c, f>> : c \in {None} \cup vals, f \in {None} \cup vals}
Placements(o) ==
  CASE Space = "decision" ->
         CASE o \in {"a", "u"} -> FAll
           [] o = "p"  -> {<<None, None>>, <<"on", None>>}
           [] o = "i"  -> {<<None, None>>, <<"in1", None>>, <<None, "in1">>, <<"EMPTY", "in1">>, <<"in1", "EMPTY">>}
           [] o = "o"  -> {<<None, None>>, <<"out1", None>>, <<None, "out1">>, <<"EMPTY", "out1">>, <<"out1", "EMPTY">>}
           [] o = "s"  -> {<<None, None>>, <<"s1", None>>, <<None, "s1">>, <<"EMPTY", None>>, <<None, "EMPTY">>}
           [] o = "d"  -> {<<None, None>>, <<"map1", None>>, <<None, "map1">>}
           [] o = "hb" -> {<<None, None>>, <<"m1", None>>, <<"h0", None>>, <<"h32", None>>, <<"h33", None>>,
                           <<None, "h33">>, <<None, "h8">>, <<"h8", "h33">>, <<"h33", "h8">>, <<None, "m1">>}
           [] o = "w"  -> {<<None, None>>, <<None, "w1">>}
           [] o = "n"  -> {<<None, None>>, <<"n1", None>>}
           [] OTHER    -> Absent
    [] Space = "decision-small" ->
         CASE o \in {"a", "u"} -> FSome
           [] o = "p"  -> {<<None, None>>, <<"on", None>>}
           [] o = "i"  -> {<<None, None>>, <<"in1", None>>, <<None, "in1">>, <<"EMPTY", "in1">>}
           [] o = "o"  -> {<<None, None>>, <<"out1", None>>, <<None, "out1">>, <<"out1", "EMPTY">>}
           [] o = "s"  -> {<<None, None>>, <<"s1", None>>, <<None, "EMPTY">>, <<"EMPTY", "s1">>}
           [] o = "d"  -> {<<None, None>>, <<"map1", None>>, <<None, "map1">>}
           [] o = "hb" -> {<<None, None>>, <<"m1", None>>, <<"h0", None>>, <<"h32", None>>, <<"h33", None>>,
                           <<None, "h33">>, <<"h8", "h33">>, <<"h33", "h8">>}
           [] o = "w"  -> {<<None, None>>, <<None, "w1">>}
           [] OTHER    -> Absent
    [] Space = "theorems" ->
         CASE o = "a"  -> {<<None, None>>, <<"on", None>>, <<None, "true">>}
           [] o = "u"  -> {<<None, None>>, <<"on", None>>, <<"on", "false">>}
           [] o = "pv" -> {<<None, None>>, <<"on", None>>, <<None, "true">>}
           [] o = "i"  -> {<<"in1", None>>, <<"EMPTY", "in2">>}
           [] o = "o"  -> {<<None, "out1">>, <<None, None>>}
           [] o = "s"  -> {<<None, None>>, <<"s1", None>>, <<"EMPTY", "s2">>, <<None, "EMPTY">>}
           [] o = "d"  -> {<<None, None>>, <<None, "map1">>}
           [] o = "w"  -> {<<None, None>>, <<"w1", None>>}
           [] o = "pp" -> {<<None, None>>, <<"pp1", None>>}
           [] o = "pa" -> {<<None, None>>, <<"pa1", None>>, <<None, "parfc">>}
           [] o = "hb" -> {<<None, None>>, <<"h8", None>>, <<None, "h33">>, <<"h0", "h33">>}
           [] OTHER    -> Absent
    [] Space = "theorems-small" ->
         CASE o = "a"  -> {<<None, None>>, <<"on", None>>}
           [] o = "u"  -> {<<None, None>>, <<None, "true">>}
           [] o = "pv" -> {<<None, None>>, <<"on", None>>, <<None, "true">>}
           [] o = "i"  -> {<<"in1", None>>, <<"EMPTY", "in2">>}
           [] o = "o"  -> {<<None, "out1">>}
           [] o = "s"  -> {<<None, None>>, <<"s1", None>>, <<"EMPTY", "s2">>}
           [] o = "d"  -> {<<None, None>>, <<None, "map1">>}
           [] o = "pp" -> {<<None, None>>, <<"pp1", None>>}
           [] o = "pa" -> {<<None, None>>, <<"pa1", None>>, <<None, "parfc">>}
           [] o = "hb" -> {<<None, None>>, <<"h8", None>>, <<"h0", "h33">>}
           [] OTHER    -> Absent
    [] Space = "params" ->
         CASE o = "a"  -> {<<"on", None>>, <<None, "true">>, <<None, None>>}
           [] o = "u"  -> {<<None, None>>, <<"on", "false">>}
           [] o = "i"  -> {<<"in1", "in2">>}
           [] o = "o"  -> {<<"out2", "out1">>}
           [] o = "s"  -> {<<"s1", None>>, <<None, "s2">>, <<"s2", "s1">>, <<"EMPTY", "s1">>, <<None, "EMPTY">>}
           [] o = "d"  -> {<<None, None>>, <<"map2", "map1">>}
           [] o = "w"  -> {<<None, None>>, <<"w2", "w1">>}
           [] o = "n"  -> {<<None, None>>, <<None, "n1">>}
           [] o = "r"  -> {<<None, None>>, <<"r1", "r2">>}
           [] o = "pp" -> {<<None, None>>, <<"pp1", None>>, <<None, "ppdef">>, <<"pp2", "pp1">>}
           [] o = "pa" -> {<<None, None>>, <<"pa1", None>>, <<None, "parfc">>, <<"pamix", "pa1">>, <<None, "pa1">>}
           [] o = "pv" -> FSome
           [] o = "hb" -> {<<None, None>>, <<"h0", None>>, <<None, "h17">>, <<"h8", "h32">>, <<"h32", "h33">>}
           [] OTHER    -> Absent
    [] Space = "params-small" ->
         CASE o = "a"  -> {<<"on", None>>, <<None, "true">>}
           [] o = "i"  -> {<<"in1", "in2">>}
           [] o = "o"  -> {<<None, "out1">>}
           [] o = "s"  -> {<<"s1", None>>, <<"s2", "s1">>, <<"EMPTY", "s1">>}
           [] o = "d"  -> {<<None, None>>, <<"map2", "map1">>}
           [] o = "w"  -> {<<None, None>>, <<"w2", "w1">>}
           [] o = "r"  -> {<<None, None>>, <<"r1", "r2">>}
           [] o = "pp" -> {<<None, None>>, <<"pp1", None>>, <<None, "ppdef">>, <<"pp2", "pp1">>}
           [] o = "pa" -> {<<None, None>>, <<"pa1", None>>, <<None, "parfc">>, <<"pamix", "pa1">>}
           [] o = "pv" -> FSome
           [] o = "hb" -> {<<None, None>>, <<"h0", None>>, <<None, "h17">>, <<"h8", "h32">>}
           [] OTHER    -> Absent
Init == /\ \E a \in Placements("a"), p \in Placements("p"), u \in Placements("u"), pv \in Placements("pv"),
              i \in Placements("i"), o \in Placements("o"), s \in Placements("s"), d \in Placements("d"),
              w \in Placements("w"), n \in Placements("n"), r \in Placements("r"),
              pp \in Placements("pp"), pa \in Placements("pa"), hb \in Placements("hb") :
           LET f == [a |-> a, p |-> p, u |-> u, pv |-> pv, i |-> i, o |-> o, s |-> s, d |-> d,
                     w |-> w, n |-> n, r |-> r, pp |-> pp, pa |-> pa, hb |-> hb]
           IN \E hbsp \in (IF Space \in {"decision", "theorems", "theorems-small"} /\ f["hb"][1] # None
                            THEN {"any", "abbreq"} ELSE {"any"}) :
              vec = [cli |-> [x \in Opts |-> f[x][1]], cfg |-> [x \in Opts |-> f[x][2]],
                     sp  |-> [x \in Opts |-> IF f[x][1] = None THEN None ELSE IF x = "hb" THEN hbsp ELSE "any"]]
        /\ pc = "argparse" /\ outcome = None /\ written = {} /\ call = NoCall

Argparse ==
  /\ pc = "argparse"
  /\ IF ArgparseError(vec) THEN pc' = "done" /\ outcome' = "exit"
     ELSE pc' = Checks[1] /\ UNCHANGED outcome
  /\ UNCHANGED <<vec, written, call>>
Check(k) ==
  /\ pc = Checks[k]
  /\ IF Fails(vec, Checks[k]) THEN pc' = "done" /\ outcome' = "exc"
     ELSE pc' = (IF k < Len(Checks) THEN Checks[k + 1] ELSE "dispatch") /\ UNCHANGED outcome
  /\ UNCHANGED <<vec, written, call>>
Dispatch ==
  /\ pc = "dispatch"
  /\ IF MAny(vec) THEN pc' = "lib_files" /\ call' = MCall(vec) /\ UNCHANGED outcome
     ELSE pc' = "done" /\ outcome' = "return" /\ UNCHANGED call
  /\ UNCHANGED <<vec, written>>
LibFiles ==
  /\ pc = "lib_files" /\ written' = written \cup {"out"}
  /\ pc' = (IF call.dump # None THEN "lib_dump" ELSE "done")
  /\ outcome' = (IF call.dump # None THEN outcome ELSE "return")
  /\ UNCHANGED <<vec, call>>
LibDump ==
  /\ pc = "lib_dump" /\ written' = written \cup {"dump"} /\ pc' = "done" /\ outcome' = "return"
  /\ UNCHANGED <<vec, call>>
Next == Argparse \/ (\E k \in 1..Len(Checks) : Check(k)) \/ Dispatch \/ LibFiles \/ LibDump
Spec == Init /\ [][Next]_vars

\* ---- M satisfies R ---------------------------------------------------------
TypeOK == WellFormed(vec)
\* "rejected before anything is written; with no anonymization option nothing is written" - in EVERY state
WriteOnlyWhenRun == written # {} => Decision(vec) = "Run"
DoneAccepted     == pc = "done" => /\ Verdict(vec, outcome, written, TRUE) = "ok"
                                   /\ outcome = MOutcome(vec) /\ written = MCreated(vec)
CallIsParams     == call # NoCall => Decision(vec) = "Run" /\ call = Params(vec)
RunCallsLibrary  == (pc = "done" /\ Decision(vec) = "Run" /\ outcome = "return") => call # NoCall
\* theorems of R itself, evaluated once per vector (in the state right after
\* Argparse rather than in the initial state: TLC processes initial states on
\* one thread only)
RTheoremsHold    == (pc = Checks[1] \/ (pc = "done" /\ outcome = "exit")) => RTheorems(vec)
=============================================================================
