#!/usr/bin/env python3
"""Replace the catch matrix in DESIGN.md (between the 'Catch matrix' marker and the 'Own mutants' line) with a fresh
table built from seeded/*/meta.json (tools/seed_table.py)."""
import subprocess
p = "/verif/DESIGN.md"
s = open(p).read()
a = s.index("**Catch matrix (quick tier).**")
b = s.index("Own mutants (`mutants/mutants.json`")
table = subprocess.run(["python3", "/verif/tools/seed_table.py"], stdout=subprocess.PIPE, text=True).stdout
s = s[:a] + "**Catch matrix (quick tier).**\n\n" + table + "\n" + s[b:]
open(p, "w").write(s)
print("rows", table.count("\n") - 2)
