#!/venv/bin/python
"""Confirm a sub-agent's seeded defect and file it under /verif/seeded/<name>/.

usage: curate_seed.py <incoming-dir> <k> <name> <property> <check-id>[,<check-id>...] [--tier quick]

Steps (all in a scratch git worktree of /repo outside /repo and /verif, removed afterwards):
  1. demo passes on the unchanged tree;
  2. the patch applies; the repository's test-suite still passes with it;
  3. the demo fails with the patch;
  4. each named check is run with NETCONAN_REPO=<worktree>; exit codes recorded.
Writes patch.diff (re-generated against the current HEAD), demo.py, note.md, meta.json.
"""
import json
import os
import shutil
import subprocess
import sys
import tempfile

inc, k, name, prop, checks = sys.argv[1:6]
tier = "quick"
if "--tier" in sys.argv:
    tier = sys.argv[sys.argv.index("--tier") + 1]
checks = checks.split(",")
patch = os.path.abspath(os.path.join(inc, "patch%s.diff" % k))
demo = os.path.abspath(os.path.join(inc, "demo%s.py" % k))
note = os.path.abspath(os.path.join(inc, "note%s.md" % k))
wt = tempfile.mkdtemp(prefix="nvseed_")
os.rmdir(wt)


def sh(cmd, **kw):
    return subprocess.run(cmd, stdout=subprocess.PIPE, stderr=subprocess.STDOUT, text=True, **kw)


meta = {"property": prop, "name": name, "source": "independent sub-agent given only the property text", "ran": []}
try:
    r = sh(["git", "-C", "/repo", "worktree", "add", "--detach", wt, "HEAD"])
    assert r.returncode == 0, r.stdout
    env = dict(os.environ, PYTHONPATH=wt)
    env.pop("NETCONAN_REPO", None)
    d0 = sh([sys.executable, demo], env=env, cwd=wt)
    meta["demo_unchanged_exit"] = d0.returncode
    r = sh(["git", "apply", "--3way", patch], cwd=wt)
    if r.returncode != 0:
        r = sh(["patch", "-p1", "-F3", "-i", patch], cwd=wt)
    meta["patch_applies"] = r.returncode == 0
    if r.returncode != 0:
        print("PATCH DOES NOT APPLY:\n" + r.stdout)
        sys.exit(3)
    sh(["git", "reset", "-q"], cwd=wt)
    diff = sh(["git", "diff", "--", "netconan"], cwd=wt).stdout
    t = sh([sys.executable, "-m", "pytest", "-q", "-p", "no:cacheprovider", "-n", "8", "tests"], env=env, cwd=wt)
    tail = t.stdout.strip().splitlines()[-1] if t.stdout.strip() else ""
    meta["tests_with_patch"] = tail
    meta["tests_pass_with_patch"] = t.returncode == 0
    d1 = sh([sys.executable, demo], env=env, cwd=wt)
    meta["demo_patched_exit"] = d1.returncode
    meta["demo_patched_tail"] = d1.stdout.strip().splitlines()[-3:]
    env2 = dict(os.environ, NETCONAN_REPO=wt, VERIF_NO_EVIDENCE="1")
    for c in checks:
        rr = sh(["/verif/check", c, "--tier", tier], env=env2, cwd="/verif")
        lines = rr.stdout.strip().splitlines()
        viol = [l for l in lines if l.startswith("VIOLATION")][:1]
        what = [l for l in lines if l.strip().startswith("what:")][:1]
        meta["ran"].append({"check": c, "tier": tier, "exit": rr.returncode, "summary": lines[-1] if lines else "",
                            "first_violation": (viol + what)})
        print(c, "exit", rr.returncode, lines[-1] if lines else "")
    meta["caught_by"] = [x["check"] for x in meta["ran"] if x["exit"] == 1]
    ok = meta["demo_unchanged_exit"] == 0 and meta["tests_pass_with_patch"] and meta["demo_patched_exit"] != 0
    meta["confirmed"] = ok
    out = os.path.join("/verif/seeded", name)
    os.makedirs(out, exist_ok=True)
    open(os.path.join(out, "patch.diff"), "w").write(diff)
    shutil.copy(demo, os.path.join(out, "demo.py"))
    if os.path.exists(note):
        shutil.copy(note, os.path.join(out, "note.md"))
        meta["needs_to_manifest"] = open(note).read()[:1500]
    json.dump(meta, open(os.path.join(out, "meta.json"), "w"), indent=1)
    print("confirmed" if ok else "NOT CONFIRMED", name, "caught_by", meta["caught_by"])
finally:
    sh(["git", "-C", "/repo", "worktree", "remove", "--force", wt])
    shutil.rmtree(wt, ignore_errors=True)
    # replays written while running against the mutant are not findings about /repo
    for f in ([] if os.environ.get("CURATE_KEEP_REPLAYS") else os.listdir("/verif/replays")):
        if f.endswith(".json"):
            os.remove(os.path.join("/verif/replays", f))
