#!/venv/bin/python
"""Run the relevant quick checks against every benign (property-preserving) patch under seeded/_benign/<area>/.
Every check must exit 0.  usage: benign_eval.py [area ...]    (writes seeded/_benign/results.json)"""
import concurrent.futures, json, os, shutil, subprocess, sys, tempfile
AREAS = {
    "ip": ["C01", "C02", "C03", "C04", "C05", "C06", "C17", "C12", "C15"],
    "secrets": ["C07", "C08", "C09", "C12", "C13", "C14", "C15", "C18"],
    "words": ["C10", "C11", "C12", "C13", "C15"],
    "files": ["C12", "C13", "C14", "C15", "C16", "C19", "C08", "C02", "C03", "C17"],
}
def run(job):
    area, patch = job
    d = tempfile.mkdtemp(prefix="nvben_")
    out = {}
    try:
        subprocess.check_call(["rsync", "-a", "--exclude", ".git", "/repo/", d + "/"])
        r = subprocess.run(["patch", "-p1", "-s", "-F3", "-i", patch], cwd=d, stdout=subprocess.PIPE, stderr=subprocess.STDOUT, text=True)
        if r.returncode != 0:
            return area, patch, {"apply": "FAILED " + r.stdout[-200:]}
        t = subprocess.run(["/venv/bin/python", "-m", "pytest", "-q", "-p", "no:cacheprovider", "-n", "4", "tests"], cwd=d, env=dict(os.environ, PYTHONPATH=d),
                           stdout=subprocess.PIPE, stderr=subprocess.STDOUT, text=True)
        out["tests"] = t.stdout.strip().splitlines()[-1][:80] if t.stdout.strip() else ""
        for c in AREAS[area]:
            env = dict(os.environ, NETCONAN_REPO=d, VERIF_NO_EVIDENCE="1")
            rr = subprocess.run(["/verif/check", c, "--tier", "quick"], env=env, stdout=subprocess.PIPE, stderr=subprocess.STDOUT, text=True)
            first = [l.strip()[:300] for l in rr.stdout.splitlines() if l.strip().startswith("what:") or "MACHINERY" in l][:2]
            out[c] = {"exit": rr.returncode, "first": first}
    finally:
        shutil.rmtree(d, ignore_errors=True)
    return area, patch, out
jobs = []
for area in (sys.argv[1:] or AREAS):
    base = "/verif/seeded/_benign/%s" % area
    for f in sorted(os.listdir(base)):
        if f.endswith(".diff"):
            jobs.append((area, os.path.join(base, f)))
res = {}
with concurrent.futures.ThreadPoolExecutor(max_workers=int(os.environ.get("BENIGN_WORKERS", "3"))) as ex:
    for area, patch, out in ex.map(run, jobs):
        res["%s/%s" % (area, os.path.basename(patch))] = out
        bad = {c: v for c, v in out.items() if isinstance(v, dict) and v.get("exit") != 0}
        print(area, os.path.basename(patch), out.get("tests", out.get("apply")), "ALL-PASS" if not bad else "ALARMS: %s" % json.dumps(bad)[:600], flush=True)
        json.dump(res, open("/verif/seeded/_benign/results.json", "w"), indent=1)
for f in os.listdir("/verif/replays"):
    if f.endswith(".json"):
        os.remove(os.path.join("/verif/replays", f))
