#!/usr/bin/env python3
"""recurate.py <seed-name> <check,check>: find the raw material of a curated seed under seeded/_incoming and curate it again."""
import glob, os, subprocess, sys
name, checks = sys.argv[1], sys.argv[2]
note = open("/verif/seeded/%s/note.md" % name).read()
for n in glob.glob("/verif/seeded/_incoming/*/note*.md"):
    if open(n).read() == note:
        d, k = os.path.dirname(n), os.path.basename(n)[4:-3]
        prop = name.split("_")[0]
        sys.exit(subprocess.call(["/verif/tools/curate_seed.py", d, k, name, prop, checks]))
sys.exit("raw material not found")
