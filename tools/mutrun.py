#!/venv/bin/python
"""Apply a textual mutation (or a patch file) to a scratch copy of /repo and run a check against it.

usage: mutrun.py <check-id> <tier> <file> <old> <new>      (textual replacement, must change the file)
       mutrun.py <check-id> <tier> --patch <patch.diff>
Prints the check's tail and its exit code; the scratch copy is removed afterwards.
"""
import os, shutil, subprocess, sys, tempfile
pid, tier = sys.argv[1], sys.argv[2]
d = tempfile.mkdtemp(prefix="nvmut_")
try:
    subprocess.check_call(["rsync", "-a", "--exclude", ".git", "/repo/", d + "/"])
    if sys.argv[3] == "--patch":
        subprocess.check_call(["git", "apply", "--directory", ".", os.path.abspath(sys.argv[4])], cwd=d) if False else subprocess.check_call(["patch", "-p1", "-s", "-i", os.path.abspath(sys.argv[4])], cwd=d)
    else:
        f, old, new = sys.argv[3:6]
        p = os.path.join(d, f)
        s = open(p).read()
        assert old in s, "pattern not found"
        open(p, "w").write(s.replace(old, new))
    env = dict(os.environ, NETCONAN_REPO=d, VERIF_NO_EVIDENCE="1")
    r = subprocess.run(["/verif/check", pid, "--tier", tier], env=env, stdout=subprocess.PIPE, stderr=subprocess.STDOUT, text=True)
    print("\n".join(r.stdout.splitlines()[-12:]))
    print("EXIT", r.returncode)
finally:
    shutil.rmtree(d, ignore_errors=True)
