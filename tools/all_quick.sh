#!/bin/sh
# all_quick.sh <seed> [tier]: every registered check once, one summary line each (used to hunt seed-dependent alarms)
seed=${1:-0}; tier=${2:-quick}
cd "$(dirname "$0")/.."
for p in C01 C02 C03 C04 C05 C06 C07 C08 C09 C10 C11 C12 C13 C14 C15 C16 C17 C18 C19; do
  out=$(VERIF_SEED=$seed VERIF_NO_EVIDENCE=1 ./check $p --tier $tier 2>&1); rc=$?
  echo "seed=$seed $p rc=$rc $(echo "$out" | tail -1 | cut -c1-160)"
  if [ $rc -ne 0 ]; then echo "$out" | grep -A1 "^VIOLATION" | grep "what:" | cut -c1-400 | head -5; fi
done
