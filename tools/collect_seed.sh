#!/bin/sh
# collect_seed.sh <ID>: stash a sub-agent's seeded defects and remove its scratch worktree
set -e
id=$1
mkdir -p /verif/seeded/_incoming
rm -rf /verif/seeded/_incoming/$id
cp -r /tmp/wt_$id/_seeded /verif/seeded/_incoming/$id
git -C /repo worktree remove --force /tmp/wt_$id
echo collected $id: $(ls /verif/seeded/_incoming/$id | tr '\n' ' ')
