#!/usr/bin/env python3
"""make_wave_prompts.py <wave-number>: writes /tmp/agent<w>_<ID>.txt, one prompt per property, for independent
seeding sub-agents (they get the property text, their own scratch worktree /tmp/wt<w>_<ID> and summaries of the
changes earlier waves already produced for that property - nothing else from /verif), and creates the worktrees."""
import glob, json, os, subprocess, sys
w = sys.argv[1]
TEMPLATE = open(os.path.join(os.path.dirname(__file__), "seed_prompt.txt")).read()
for line in open("/verif/properties.jsonl"):
    p = json.loads(line)
    pid = p["id"]
    wt = "/tmp/wt%s_%s" % (w, pid)
    if not os.path.isdir(wt):
        subprocess.check_call(["git", "-C", "/repo", "worktree", "add", "--detach", "-q", wt, "HEAD"])
    prior = ""
    for d in sorted(glob.glob("/verif/seeded/_incoming/%s*" % pid)):
        for n in sorted(glob.glob(d + "/note*.md")):
            prior += "--- already done by someone else ---\n" + open(n).read()[:700].strip() + "\n"
    text = TEMPLATE.replace("@WT@", wt).replace("@TITLE@", p["title"]).replace("@STATEMENT@", p["statement"]).replace("@QUANT@", p["quantifier"]["text"]).replace("@PRIOR@", prior)
    open("/tmp/agent%s_%s.txt" % (w, pid), "w").write(text)
    print(pid, len(text))
