#!/bin/sh
cd "$(dirname "$0")/.."
for p in C18 C10 C11 C13 C12 C15 C14 C08 C07 C09 C16 C19 C06 C01 C04 C05 C17 C02 C03; do
  s=$(date +%s); out=$(VERIF_NO_EVIDENCE=1 ./check $p --tier thorough 2>&1); rc=$?; e=$(date +%s)
  echo "$p rc=$rc wall=$((e-s))s $(echo "$out" | tail -1 | cut -c1-170)"
  if [ $rc -ne 0 ]; then echo "$out" | grep -A1 "^VIOLATION\|MACHINERY" | grep "what:\|MACHINERY" | cut -c1-400 | head -6; fi
done
