#!/usr/bin/env python3
"""Validate MANIFEST.json and evidence files against the schemas (uses the tooling venv's jsonschema)."""
import glob, json, sys
import jsonschema
jsonschema.validate(json.load(open('/verif/MANIFEST.json')), json.load(open('/root/.vp/MANIFEST.schema.json')))
print("MANIFEST ok")
s = json.load(open('/root/.vp/EVIDENCE.schema.json'))
for f in sorted(glob.glob('/verif/evidence/*.json')):
    jsonschema.validate(json.load(open(f)), s)
    print('ok', f)
