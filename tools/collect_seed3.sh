#!/bin/sh
# collect_seed3.sh <ID>: stash a third-wave sub-agent's seeded defects (worktree /tmp/wt3_<ID>) as _incoming/<ID>w3
set -e
id=$1
rm -rf /verif/seeded/_incoming/${id}w3
cp -r /tmp/wt3_$id/_seeded /verif/seeded/_incoming/${id}w3
git -C /repo worktree remove --force /tmp/wt3_$id
echo collected ${id}w3
