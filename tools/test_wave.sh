#!/bin/sh
# test_wave.sh <N> <ID...>: collect wave-N seeds of the given properties (worktree /tmp/wt<N>_<ID>) and run the property's own
# quick check against each patch; prints one line per patch.
n=$1; shift
cd /verif
for id in "$@"; do
  if [ -d /tmp/wt${n}_$id/_seeded ]; then
    rm -rf seeded/_incoming/${id}w$n; cp -r /tmp/wt${n}_$id/_seeded seeded/_incoming/${id}w$n; git -C /repo worktree remove --force /tmp/wt${n}_$id
  fi
  for k in 1 2; do
    f=seeded/_incoming/${id}w$n/patch$k.diff
    [ -f $f ] || continue
    echo "$id w$n p$k: $(./tools/mutrun.py $id quick --patch $f 2>&1 | tail -1)"
  done
done
[ -n "$KEEP_REPLAYS" ] || rm -f replays/*.json
