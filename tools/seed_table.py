#!/usr/bin/env python3
"""Markdown table of the curated seeded changes (from seeded/*/meta.json)."""
import glob, json, os
rows = []
for f in sorted(glob.glob("/verif/seeded/*/meta.json")):
    m = json.load(open(f))
    need = (m.get("needs_to_manifest") or "").strip().splitlines()
    first = next((l.strip("# ").strip() for l in need if l.strip()), "")
    ran = ", ".join("%s=%s" % (r["check"], "caught" if r["exit"] == 1 else "missed(exit %s)" % r["exit"]) for r in m.get("ran", []))
    rows.append("| `%s` | %s | %s | %s | %s |" % (m["name"], m["property"], "yes" if m.get("confirmed") else "NO", ran, first[:110].replace("|", "/")))
print("| seeded change | breaks | confirmed (tests green, demo fails only with patch) | checks run (quick) | what it is |")
print("|---|---|---|---|---|")
print("\n".join(rows))
