#!/venv/bin/python
"""Regenerates /verif/MANIFEST.json from the table below (single source of truth)."""
import json
import os

VERIF = os.path.dirname(os.path.dirname(os.path.abspath(__file__)))
ids = [json.loads(l)["id"] for l in open(os.path.join(VERIF, "properties.jsonl"))]

TRUST = ("TLC/SANY; the Python projection layer (bits<->integers, CIDR<->bit prefixes, text<->items); public API keywords keep "
         "their meaning; small-scope exhaustiveness only at the stated constants, full-width behaviour by conformance of explored executions")

CHECKS = {
    "C01": dict(cat="model_checking", ref="5/C01",
                text="TLC proves CPL preservation + permutation for every flip function, host-bit count and pin set at W<=3 (R-module PrefixMap) and the "
                     "equivalence of the pairwise trace clauses with 'some admissible flip exists'; the real IpAnonymizer / IpV6Anonymizer / width-generic base class are "
                     "run under EVERY salter table at W=3 and on full-width md5 workloads hitting every common-prefix length; every recorded call is judged by TLC (IpTrace).",
                tech="TLA+ R-module PrefixMap model-checked by TLC; trace validation of real executions (all salters at W=3 + full width) against it"),
    "C02": dict(cat="model_checking", ref="5/C02",
                text="TLC checks RoundTrip for every flip and M=>R for the memoised inverse walk over all histories (cold/warm memo) at W<=2(3); real classes: anonymize on one instance, "
                     "undo on a fresh instance and in a fresh interpreter process, re-anonymize, all judged by one learned flip in TLC.",
                tech="TLA+ PrefixMap + IpMemo (M=>R) model-checked; TLC trace validation of cold-undo executions incl. fresh processes"),
    "C03": dict(cat="model_checking", ref="5/C03",
                text="IpMemo (bidirectional memo, seeding, full-address entry) refines PrefixMap for all salters and all request histories at small width; TLC-generated behaviours are replayed on the "
                     "real classes and shuffled/interleaved/multi-instance full-width histories must be explained by ONE flip.",
                tech="TLA+ IpMemo refinement of PrefixMap by TLC; TLC-generated behaviours replayed into the code; trace validation"),
    "C04": dict(cat="model_checking", ref="5/C04",
                text="PinsKept/SuffixKept/LeadIndependent are TLC-checked theorems for every pin set/host-bit count/flip at W<=3; real classes under every salter (so an unpinned bit is "
                     "flipped with certainty by some salter) and at the edges of every configured prefix at full width.",
                tech="TLA+ PrefixMap theorems by TLC; exhaustive-salter embedding + edge-address traces validated by TLC"),
    "C05": dict(cat="model_checking", ref="5/C05",
                text="NoCollision is a TLC-checked theorem (nets registered as pins); real classes under every salter with every network of length 0..3, and full-width nets/private blocks: "
                     "no outside address maps (or is undone) into a preserved network.",
                tech="TLA+ PrefixMap NoCollision by TLC; trace validation with the Nets clause"),
    "C17": dict(cat="model_checking", ref="5/C17",
                text="IpMemo's Dump action is checked against R for all histories (both caching paths ps=0 / ps>0, seeded full-length identities); dump_to_file of the real classes is parsed and "
                     "TLC requires: covers every anonymized address with the pair actually returned, no duplicate original/replacement, every pair consistent with the learned flip.",
                tech="TLA+ IpMemo Dump vs PrefixMap by TLC; dump traces of the real classes validated by TLC"),
    "C18": dict(cat="model_checking", ref="5/C18",
                text="Juniper.tla is the codec as a step machine; TLC visits all 7x65 states x 256 bytes and checks that every emitted group decodes to its byte (by induction: the round trip for every plaintext/salt). "
                     "The real encoder/decoder are driven over those transitions (coverage measured; 100% in thorough), all 65 salt characters and arbitrary salt strings, arbitrary well-formed strings and every malformed class; "
                     "each call is judged by TLC against the specification's own decoder and validity predicate.",
                tech="TLA+ step machine Juniper.tla model-checked by TLC (all transitions); TLC trace validation of the real codec's calls"),
    "C06": dict(cat="model_checking", ref="5/C06",
                text="AddrText.tla is an independent scanner/parser (maximal runs, IPv4/IPv6 validity incl. dotted tails, alignment of output with input); TLC enumerates the lines (AddrGen: all strings <= N over a boundary alphabet, "
                     "dotted and colon-hex candidates x contexts), checks scanner sanity on each, the real code rewrites them (stage-wise and through anonymize_io) and TLC judges every <input, output> pair: text outside tokens copied, "
                     "every token replaced by a valid plain spelling, replacement pairs consistent with PrefixMap.",
                tech="TLA+ scanner spec AddrText + TLC-generated cases (AddrGen) + TLC trace validation (TextTrace) of the real rewriting"),
    "C07": dict(cat="model_checking", ref="5/C07",
                text="SecretForms.tla is the table of recognised line forms; TLC enumerates every form x alternatives x format class x wrapping x indentation as abstract lines (content-free by construction). Each is concretized twice with different "
                     "secret values; TLC requires the slot to hold something else than the secret and the two outputs / INFO+ logs to be identical (non-interference).",
                tech="TLA+ form table SecretForms (TLC-enumerated abstract lines) + paired concretizations judged by TLC (SecretTrace: Replaced, Sameoutput, Samelog)"),
    "C09": dict(cat="model_checking", ref="5/C09",
                text="Same abstract lines plus TLC-enumerated occurrence histories (PwdLookup.tla, which TLC shows to break ClassKept exactly for the history behind finding D14); replacements are decoded by independent decoders and TLC "
                     "checks class (and md5 salt length) and that enclosing text and the rest of the line are kept, under every netconan salt class.",
                tech="TLA+ SecretForms + PwdLookup/Secrets; TLC trace validation with ClassKept / ContextKept on independently decoded replacements"),
    "C10": dict(cat="model_checking", ref="5/C10",
                text="Words.tla: R = set of admissible rewritings of a token (any choice among overlapping words), M = fixed try-order (hash seed); TLC checks M in R and that no word survives, for all word sets/orders/tokens in a small universe. "
                     "TLC-enumerated word lists x reserved sets are run in >= 3 interpreters with different hash seeds and through FileAnonymizer; TLC judges each token: member of Rewrites under the learned pseudonym function, reserved tokens kept, no survivor.",
                tech="TLA+ Words (R/M) model-checked; TLC-generated configurations; TLC trace validation (WordsTrace) across hash seeds"),
    "C11": dict(cat="model_checking", ref="5/C11",
                text="AsNum.tla: block table on digit sequences, maximal-digit-run scanner, M = hash mod size + begin with regex semantics; TLC checks M => R for a scaled table with every number and residue and for all short lines/lists. "
                     "The real class is driven at every block boundary with chosen hash residues, bulk random numbers, a line grammar and cross-instance/process families; every call is judged by TLC (AsNumTrace).",
                tech="TLA+ AsNum (R/M) model-checked by TLC; TLC trace validation of the real AsNumberAnonymizer / anonymize_io calls"),
    "C08": dict(cat="model_checking", ref="5/C08",
                text="PwdLookup.tla models the three-way lookup of the code ($9$ plaintext keying, numbering by size); TLC checks that every reply in every history over a universe with $9$ aliases, malformed $9$ and reserved values "
                     "is admissible for the injective growing lookup of Secrets.tla, and emits all histories; they are replayed on the real code in varied line forms/wrappings (plus long random runs and same-syntax-twice lines) and "
                     "TLC judges each occurrence: same key => same decoded pseudonym, new key => unused pseudonym.",
                tech="TLA+ PwdLookup (M) => Secrets (R) by TLC; TLC-generated histories replayed; TLC trace validation (Consistent, Injective)"),
    "C12": dict(cat="model_checking", ref="5/C12",
                text="PipeGen.tla: abstract pipeline with the theorem Conserved (line count/order, plain items, line locality) checked by TLC on every <feature set, text of line kinds, terminator> it enumerates; each is concretized "
                     "and run through anonymize_io; Pipeline.tla (TLC) judges every line: terminator, lead/trail, token count, non-sensitive tokens, inner white space (collapse only with secret/word stage), plus split/permuted runs must agree.",
                tech="TLA+ PipeGen (design theorems + case generation) and Pipeline (line-structure R) ; TLC trace validation of real anonymize_io runs"),
    "C14": dict(cat="exploration", ref="5/C14",
                text="AdvGen.tla enumerates adversarial fillings (backslash escapes, regex metacharacters, malformed $1$/$9$/$6$, near-IPv6, 2000 brackets, control/Unicode, 5000-char tokens) of keyword frames incl. frames that put user text "
                     "into the kept prefix x 4 salt classes x 6 feature sets; each runs through anonymize_io and (sampled) anonymize_files; an exception, an ERROR record or a changed line count is an event TLC rejects. The input space is unbounded: exploration.",
                tech="TLA+ AdvGen case enumeration by TLC + Pipeline trace validation (no failure action exists in the spec: any exception event is rejected)"),
    "C15": dict(cat="model_checking", ref="5/C15",
                text="PipeGen.tla states the composition law (ChainEqualsMulti) on the abstract pipeline and TLC checks it for all 16 feature sets and texts; for every enumerated case the real multi-feature FileAnonymizer output must equal "
                     "(TLC compares) the chain of single-stage functions in the fixed order and the chain of single-feature FileAnonymizers, also with undo for the IP stage.",
                tech="TLA+ PipeGen composition theorem by TLC; code-vs-code equality under the spec's recipe, judged by TLC"),
    "C16": dict(cat="model_checking", ref="5/C16",
                text="Files.tla (R: one-to-one, nothing else written, inputs untouched, errors named, isolation as a two-copy product) and FilesImpl.tla (M: walk, per-file try/except, both fault kinds) with M => R checked by TLC; TLC enumerates "
                     "every tree <= 2(3) files x fault assignment x environment; each is materialised and run through the directory API, main, the CLI and the single-file API, content compared with the stream API; TLC judges each run (FilesTrace).",
                tech="TLA+ Files/FilesImpl refinement by TLC; TLC-enumerated fault scenarios materialised and validated by TLC (fault enumeration inside a model-checking claim)"),
    "C19": dict(cat="model_checking", ref="5/C19",
                text="Cli.tla: option vector (each option on the command line / in the config file / both) -> Reject | NoOutput | Run(params) with precedence, defaults and equivalences; CliImpl.tla: main() as a step machine with 'nothing written unless R says Run' "
                     "checked in every state; TLC enumerates the vectors (placements, pairs, validation table, walks); each runs the real main in a clean directory and, for Run, a direct anonymize_files(**params) reference; TLC judges outcome class and bytes.",
                tech="TLA+ Cli (R) / CliImpl (M) model-checked; TLC-generated argument vectors run through the real main; TLC trace validation (CliTrace)"),
    "C13": dict(cat="model_checking", ref="5/C13",
                text="Process.tla: processes (hash seed, rng, module-level state), Construct, Run; R = the recorded <configuration, input> -> output relation is single-valued. TLC proves it for every history within the bounds with the three "
                     "named deviations off and refutes it with each one on (non-vacuity; they are the three defects repaired in /repo). TLC-emitted histories are replayed with real interpreter processes under the history's PYTHONHASHSEEDs, "
                     "plus the command line under five hash seeds and the no-salt case re-run with the reported salt; TLC (ProcessTrace) requires one digest per <configuration, input>.",
                tech="TLA+ Process model-checked by TLC (with deviation configs for non-vacuity); TLC-generated histories replayed in real processes; TLC trace validation"),
}

NA_REASON = "check not built yet (work in progress; see DESIGN.md section 5)"

m = {
    "version": 1,
    "setup_cmd": "cd /verif && ./check setup",
    "hooks": {
        "guard": "NETCONAN_VERIF",
        "enable": "no source hooks are needed: checks import netconan from $NETCONAN_REPO (default /repo, current working tree) and observe public API returns",
        "baseline_off_cmd": "cd /repo && /venv/bin/python -m pytest -q -p no:cacheprovider --timeout=900",
        "source_commits": [],
        "add_only": True,
    },
    "engines": [
        {"name": "tlc", "path": "/opt/veriftools/tla/tla2tools.jar", "serves_properties": sorted(CHECKS),
         "kind_free_text": "explicit-state model checker for the TLA+ specifications under /verif/spec; also the judge of every recorded trace"},
    ],
    "checks": [],
    "notes": "One driver: ./check <ID> --tier quick|thorough. NETCONAN_REPO selects the tree under test (default /repo). "
             "./check selftest mutates scratch copies and corrupted traces to show the binding bites. Known findings: known_findings.json.",
    "not_applicable": [{"property_id": i, "reason": NA_REASON} for i in ids if i not in CHECKS],
}
for pid in ids:
    if pid not in CHECKS:
        continue
    c = CHECKS[pid]
    m["checks"].append({
        "property_id": pid,
        "quick_cmd": "./check %s --tier quick" % pid,
        "thorough_cmd": "./check %s --tier thorough" % pid,
        "evidence_file": "/verif/evidence/%s.json" % pid,
        "replay_cmd_template": "./check %s --replay {path}" % pid,
        "engine": "tlc",
        "level_claimed": {"category": c["cat"], "text": c["text"], "design_ref": "DESIGN.md section " + c["ref"]},
        "level_note": TRUST,
        "technique": c["tech"],
    })
json.dump(m, open(os.path.join(VERIF, "MANIFEST.json"), "w"), indent=1)
print("manifest: %d checks, %d not applicable" % (len(m["checks"]), len(m["not_applicable"])))
