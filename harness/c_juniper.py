"""C18: the Juniper $9$ codec round-trips; malformed strings are refused with ValueError.

1. TLC model-checks Juniper.tla: all 7 x 65 states x 256 bytes (StepRoundTrip).
2. The real encoder/decoder are run on plaintexts chosen to cover those same
   <pos, prev, byte> transitions (coverage measured), under all 65 salt
   characters and arbitrary salt strings; on arbitrary well-formed strings;
   and on every malformed class.  Each call is an event judged by TLC against
   the spec's own decoder (JuniperTrace.tla).
"""
import sys

import common
from common import Check, rng, validate_traces
from netconan.utils import juniper_secrets as J

ALPHA = "QzF3n6/9CAtpu0O" "B1IREhcSyrleKvMW8LXx" "7N-dVbwsY2g4oaJZGUDj" "iHkq.mPf5T"
IDX = {c: i for i, c in enumerate(ALPHA)}
ROWLEN = [3, 3, 3, 2, 2, 4, 3]
MAGIC = "$9$"


def enc_text(s):
    """text -> (magic?, indices)"""
    magic = s.startswith(MAGIC)
    body = s[len(MAGIC):] if magic else s
    return magic, [IDX.get(c, 99) for c in body]


def extra(i):
    return 3 if i < 15 else 2 if i < 35 else 1 if i < 55 else 0


def call_enc(plain, salt):
    try:
        c = J.juniper_nonrandom_encrypt(plain, salt)
    except Exception as e:
        return {"ev": "exc", "what": "encrypt(%r, salt=%r): %r" % (plain[:20], salt, e)}
    if not isinstance(c, str):
        return {"ev": "exc", "what": "encrypt returned %r" % type(c)}
    magic, body = enc_text(c)
    return {"ev": "enc", "plain": [ord(ch) for ch in plain], "magic": magic, "body": body}


def call_dec(s):
    magic, body = enc_text(s)
    try:
        p = J.juniper_decrypt(s)
        out, plain = "ok", [ord(ch) for ch in p]
        if any(o > 255 for o in plain):
            out = "other:codepoint>255"
    except ValueError:
        out, plain = "ValueError", []
    except Exception as e:
        out, plain = "other:%s" % type(e).__name__, []
    return {"ev": "dec", "magic": magic, "body": body, "outcome": out, "plain": plain}


def covered_triples(ev):
    """<pos, prev, byte> transitions exercised by an enc event (coverage accounting only)."""
    out = set()
    if ev.get("ev") != "enc" or not ev["magic"] or not ev["body"] or ev["body"][0] == 99:
        return out
    body = ev["body"]
    i = 1 + extra(body[0])
    prev = body[0]
    for k, b in enumerate(ev["plain"]):
        n = ROWLEN[k % 7]
        if i + n > len(body):
            break
        out.add((k % 7, prev, b))
        prev = body[i + n - 1]
        i += n
    return out


SALT_STRINGS = ["TESTSALT", "netconan", "Qx", "i", "9salt", ".", "-x", "salt with space", "zé", "", "!x", "_", "éz", " x", "*"]
FOREIGN = ["\n", " ", "!", "_", "$", "é", "\x00", "A\n"[1]]


def malformed_variants(r, good):
    """good: a well-formed ciphertext.  Yields (class, string)."""
    body = good[len(MAGIC):]
    yield "no-magic", body
    yield "wrong-magic", "$8$" + body
    yield "magic-only", MAGIC
    yield "empty", ""
    for n in (1, 2, 3):
        yield "short-%d" % n, MAGIC + body[:n]
    for pos in sorted({0, 1, len(body) // 2, len(body) - 1}):
        for f in (r.choice(FOREIGN), "\n"):
            yield "foreign@%d" % pos, MAGIC + body[:pos] + f + body[pos + 1:]
    yield "trailing-newline", good + "\n"
    yield "trailing-space", good + " "
    yield "leading-space", " " + good
    # truncated last group: drop 1..n-1 characters of the last group
    for cut in (1, 2, 3):
        if len(body) - cut >= 4:
            yield "cut-%d" % cut, MAGIC + body[:-cut]


def run(pid, tier):
    ck = Check(pid, tier)
    thorough = tier == "thorough"
    r = rng(pid)
    ck.assumptions = ["alphabet / weight table of the $9$ format as transcribed in Juniper.tla (from the format's public description)",
                      "TLC and the text<->index projection are trusted"]
    ck.model("Juniper", "Juniper.cfg", "StepRoundTrip: every group decodes to its byte in all 7x65 states x 256 bytes", workers=16)

    traces, meta = [], []
    cover = set()
    salts = list(ALPHA) + SALT_STRINGS
    per_salt = 40 if thorough else 8
    for s in salts:
        # the empty plaintext is its own trace (a rejection skips the rest of a trace)
        e0 = call_enc("", s)
        traces.append([{"ev": "start"}, e0])
        meta.append({"kind": "roundtrip-empty", "salt": s})
        ev = [{"ev": "start"}]
        for j in range(per_salt):
            n = [3, 1, 2, 7, 8, 15, 30][j % 7] if j < 7 else r.randint(1, 60)
            plain = "".join(chr(r.randrange(256)) for _ in range(n))
            if j % 5 == 4:
                plain = "netconanRemoved%d" % r.randrange(1000)
            if j == 5:
                # a plaintext that is itself a well-formed $9$ string (encrypting an already encrypted value again)
                plain = MAGIC + "".join(r.choice(ALPHA) for _ in range(r.choice([4, 9, 20])))
            if j == 6:
                plain = ["$9$", "$9$ab", "$1$abcd$xyz", " leading blank", "trailing blank ", "\t"][salts.index(s) % 6]
            e = call_enc(plain, s)
            ev.append(e)
            cover |= covered_triples(e)
            if e["ev"] == "enc":
                text = MAGIC + "".join(ALPHA[i] if i != 99 else "?" for i in e["body"]) if e["magic"] else None
                if text is not None and 99 not in e["body"]:
                    ev.append(call_dec(text))
        traces.append(ev)
        meta.append({"kind": "roundtrip", "salt": s})
        ck.count(("salt", s))
    if not thorough:
        # quick: steer random plaintexts until every <position, previous symbol> state has met every EDGE byte value
        # (multiples of 64 and their neighbours, 0/1, 253-255): 7 x 65 x 19 transitions; thorough covers all 116480
        edge = sorted({0, 1, 2, 62, 63, 64, 65, 126, 127, 128, 129, 190, 191, 192, 193, 252, 253, 254, 255})
        target = {(k, pv, b) for k in range(7) for pv in range(65) for b in edge}
        budget, ev = 60000, [{"ev": "start"}]
        while not target <= cover and budget > 0:
            budget -= 1
            sc = r.choice(ALPHA)
            plain = "".join(chr(r.choice(edge)) if r.random() < 0.7 else chr(r.randrange(256)) for _ in range(14))
            e = call_enc(plain, sc)
            new = (covered_triples(e) & target) - cover
            if new or e.get("ev") != "enc":
                cover |= covered_triples(e)
                ev.append(e)
                if len(ev) > 60:
                    traces.append(ev)
                    meta.append({"kind": "cover-edge-bytes"})
                    ev = [{"ev": "start"}]
        traces.append(ev)
        meta.append({"kind": "cover-edge-bytes"})
        ck.notes["edge_byte_transitions_covered"] = "%d of %d" % (len(target & cover), len(target))
    # systematic cover of <pos, prev, byte>: plaintexts of 7 bytes, each byte value at each position, all salts
    if thorough:
        for s in ALPHA:
            ev = [{"ev": "start"}]
            for b in range(256):
                plain = "".join(chr((b + 37 * k) % 256) for k in range(14))
                e = call_enc(plain, s)
                ev.append(e)
                cover |= covered_triples(e)
            traces.append(ev)
            meta.append({"kind": "cover", "salt": s})
        # keep going with random plaintexts until every transition of the model is covered
        budget = 4000
        ev = [{"ev": "start"}]
        while len(cover) < 7 * 65 * 256 and budget > 0:
            budget -= 1
            s = r.choice(ALPHA)
            plain = "".join(chr(r.randrange(256)) for _ in range(70))
            e = call_enc(plain, s)
            new = covered_triples(e) - cover
            if new:
                cover |= new
                ev.append(e)
                if len(ev) > 60:
                    traces.append(ev)
                    meta.append({"kind": "cover-random"})
                    ev = [{"ev": "start"}]
        traces.append(ev)
        meta.append({"kind": "cover-random"})
    # arbitrary well-formed strings through the decoder (non-canonical gaps included)
    for t in range(60 if thorough else 12):
        ev = [{"ev": "start"}]
        for j in range(40):
            first = r.randrange(65)
            body = [first] + [r.randrange(65) for _ in range(extra(first))]
            for k in range(r.randint(0, 12)):
                body += [r.randrange(65) for _ in range(ROWLEN[k % 7])]
            s = MAGIC + "".join(ALPHA[i] for i in body)
            ev.append(call_dec(s))
        traces.append(ev)
        meta.append({"kind": "decode-arbitrary-wellformed"})
        ck.count(("wf", t))
    # malformed classes
    classes = set()
    for t in range(40 if thorough else 10):
        ev = [{"ev": "start"}]
        labels = []
        s = r.choice(salts[:65])
        good = J.juniper_nonrandom_encrypt("".join(chr(r.randrange(32, 127)) for _ in range(r.randint(1, 12))), s)
        for cls, bad in malformed_variants(r, good):
            ev.append(call_dec(bad))
            labels.append((cls, bad))
            classes.add(cls.split("@")[0])
        traces.append(ev)
        meta.append({"kind": "malformed", "labels": labels})
        ck.count(("mal", t))

    # the repository's own tests re-run under the recorder: every codec call they make (directly or via secrets)
    import c_suite
    for t in c_suite.juniper_traces():
        traces.append(t)
        meta.append({"kind": "repository-test-suite", "salt": None})
    c_suite.note(ck)
    rejected, states = validate_traces("JuniperTrace", "JuniperTrace.cfg", traces)
    ck.traces += len(traces)
    ck.events += sum(len(t) for t in traces)
    ck.notes["trace_states"] = states
    ck.notes["model_transitions_covered_by_real_encoder"] = len(cover)
    ck.notes["model_transitions_total"] = 7 * 65 * 256
    ck.notes["malformed_classes"] = sorted(classes)
    for ti, (k, clause) in sorted(rejected.items()):
        m = meta[ti]
        e = traces[ti][k]
        detail = ""
        if m["kind"] == "malformed":
            cls, bad = m["labels"][k - 1]
            detail = "class=%s" % cls.split("@")[0]
            what = "juniper_decrypt(%r) -> %s (malformed class %s)" % (bad, e.get("outcome"), cls)
            if bad.endswith("\n"):
                detail += " trailing-newline"
        elif e.get("ev") == "exc":
            sl = m.get("salt")
            detail = "exception salt_class=%s" % ("empty" if sl == "" else "first-char-outside-alphabet" if sl and sl[0] not in IDX else "other")
            what = e["what"]
        else:
            detail = "kind=%s" % (m["kind"],)
            if e.get("ev") == "enc" and not e["plain"]:
                detail += " plaintext=empty body_chars=%d" % len(e["body"])
            else:
                detail += " salt=%r" % (m.get("salt"),)
            what = "%s event rejected: %s" % (e.get("ev"), {k2: e[k2] for k2 in e if k2 != "body"})
        ck.violation("clause=%s %s" % (clause, detail), what, {"meta": m, "event": e, "trace": traces[ti][: k + 1]})
    ck.sample({"salt": meta[0]["salt"], "events": traces[0][1:3]})
    ck.sample({"malformed": [m for m in meta if m["kind"] == "malformed"][0]["labels"][:6]})
    ck.rule = ("cases = encrypt/decrypt calls; distinct_nontrivial counts distinct salts, arbitrary-well-formed batches and malformed batches; "
               "transition coverage of the 116480 model steps by the real encoder is reported separately (measured from ciphertexts)")
    ck.exhaustive = len(cover) == 7 * 65 * 256
    return ck.finish()


if __name__ == "__main__":
    common.main_wrapper(lambda: run("C18", sys.argv[1] if len(sys.argv) > 1 else "quick"))
