"""Driver / recorder for netconan's AS-number anonymization (C11).

A *script* is a list of JSON-able operations; `execute` runs it against the
real code (in this process or, through `python -m`-less child processes, in a
fresh interpreter) and returns one event per operation, in the format of
spec/AsNumTrace.tla:

    ["new",  inst, kind, salt, [numbers]]   kind "class": AsNumberAnonymizer(list, salt)
                                            kind "file" : FileAnonymizer(anon_pwd=False, anon_ip=False,
                                                                         salt=salt, as_numbers=list)
    ["anon", inst, [numbers], learn]        AsNumberAnonymizer.anonymize(n) for each n (kind "class")
    ["line", inst, text]                    anonymize_as_numbers(a, text) / FileAnonymizer.anonymize_io
                                            (text may be {"out": k}: the output of the k-th operation)
  further kinds: "fileip" (as_numbers + anon_ip=True), "fileundo" (as_numbers + undo_ip_anon=True),
  "iponly" (anon_ip=True, no AS numbers); their lines reach TLC with address tokens projected to a
  placeholder (see codes_projected).
  "cli" / "clicfg": the command-line entry point main() with -n LIST / a config file as-numbers=LIST;
  each line operation is one run of main() on a file holding `text` (see run_cli).
  "fileresv" / "cliresv": FileAnonymizer(..., reserved_words=LIST) / main with -r LIST: the listed numbers are
  user reserved words as well (reserved words protect words and secrets, not listed AS numbers).

Nothing here decides anything: text becomes character codes, numbers become
digit lists, exceptions become outcomes; TLC judges.
"""
import io
import ipaddress
import json
import logging
import os
import re
import shutil
import sys
import tempfile
import unicodedata

import common  # noqa: F401  (puts the tree under test first on sys.path)


def codes(s):
    """text -> character codes of AsNum.tla (0..9 ASCII digits, 100+cp other, 2000000+cp non-ASCII numeric characters)."""
    out = []
    for ch in s:
        o = ord(ch)
        if 48 <= o <= 57:
            out.append(o - 48)
        elif o > 127 and (ch.isnumeric() or unicodedata.category(ch)[0] == "N"):
            out.append(2000000 + o)
        else:
            out.append(100 + o)
    return out


def digits(n):
    """canonical decimal spelling -> digit list (generator side; anything else is a harness bug)."""
    if not (isinstance(n, str) and n.isascii() and n.isdigit() and (n == "0" or n[0] != "0")):
        raise common.MachineryError("generator produced a non-canonical number %r" % (n,))
    return [ord(c) - 48 for c in n]


def hexsalt(kind, salt):
    """opaque salt identity; class-level and FileAnonymizer-level salts live in separate name spaces
    (R does not demand that FileAnonymizer hands its salt to the class unchanged)."""
    return kind[0] + salt.encode("utf-8").hex()


def _outcome(e):
    return "ValueError" if type(e) is ValueError else "other:" + type(e).__name__


def construct(kind, lst, salt):
    if kind in CLI_KINDS:       # nothing is built yet: every line operation is one run of main()
        return {"salt": salt, "list": list(lst)}
    if kind == "class":
        from netconan.sensitive_item_removal import AsNumberAnonymizer
        return AsNumberAnonymizer(list(lst), salt)
    from netconan.anonymize_files import FileAnonymizer
    if kind == "fileip":        # AS numbers together with the address stage (-a)
        return FileAnonymizer(anon_pwd=False, anon_ip=True, salt=salt, as_numbers=list(lst))
    if kind == "fileundo":      # AS numbers together with address undo (--undo)
        return FileAnonymizer(anon_pwd=False, anon_ip=False, undo_ip_anon=True, salt=salt, as_numbers=list(lst))
    if kind == "fileresv":      # every listed number is also a user reserved word
        return FileAnonymizer(anon_pwd=False, anon_ip=False, salt=salt, as_numbers=list(lst), reserved_words=list(lst))
    if kind == "iponly":        # address stage only, no AS numbers (produces already-anonymized text)
        return FileAnonymizer(anon_pwd=False, anon_ip=True, salt=salt)
    return FileAnonymizer(anon_pwd=False, anon_ip=False, salt=salt, as_numbers=list(lst))


# ---- projection of address tokens (runs with the address stage on) ----------
# C11 speaks about digit runs OUTSIDE addresses; what the address stage does to an address is
# C01-C06's business.  For instances whose address stage is on, every address token of the input
# line AND of the output line is replaced by ONE placeholder code before TLC sees the line, so R's
# existing clauses judge exactly the rest of the line (the octets of a rewritten dotted quad are
# not unlisted numbers that "changed").  An address token is: a white-space delimited token, minus
# trailing ',' / ';' and minus a '/suffix', that `ipaddress.ip_address` accepts (so the numbers
# between the dots are <= 255 and a listed number of 5+ digits can never be part of one).
# The generator writes addresses only as such tokens.
ADDR = 1500000
PROJECTING = ("fileip", "fileundo", "iponly")


def _is_addr(tok):
    if not tok or not (tok.count(".") == 3 or ":" in tok):
        return False
    try:
        ipaddress.ip_address(tok)
        return True
    except ValueError:
        return False


def codes_projected(text):
    out = []
    pos = 0
    for m in re.finditer(r"\S+", text):
        head = m.group(0).rstrip(",;").split("/")[0]
        if _is_addr(head):
            out += codes(text[pos:m.start()]) + [ADDR]
            pos = m.start() + len(head)
    return out + codes(text[pos:])


class _Capture(logging.Handler):
    def __init__(self):
        super().__init__(level=logging.WARNING)
        self.records = []

    def emit(self, record):
        self.records.append(record)


def construct_without_salt(lst):
    """FileAnonymizer(salt=None, ...): netconan generates a salt and reports it.  Returns
    (anonymizer, reported salt or None).  The salt is read from the public attribute `.salt`;
    if that is missing, from the WARNING record (its string argument, else a quoted token)."""
    root = logging.getLogger()
    cap = _Capture()
    root.addHandler(cap)          # also keeps logging.warning from installing a stderr handler
    try:
        obj = construct("file", lst, None)
    finally:
        root.removeHandler(cap)
    salt = getattr(obj, "salt", None)
    if not isinstance(salt, str):
        salt = None
        for rec in cap.records:
            args = rec.args if isinstance(rec.args, tuple) else (rec.args,)
            cand = [a for a in args if isinstance(a, str)]
            if not cand:
                cand = re.findall(r'"([^"]*)"', rec.getMessage()) or re.findall(r"'([^']*)'", rec.getMessage())
            if cand:
                salt = cand[0]
                break
    return obj, salt


class NoOutput(Exception):
    """the command line returned normally but wrote no output file"""


CLI_KINDS = ("cli", "clicfg", "cliresv")


def run_cli(kind, obj, text):
    """One run of the command-line entry point netconan.netconan.main on a one-file input:
    kind "cli":    main(["-i", in, "-o", out, "-s", salt, "-n", "n1,n2,..."])
    kind "clicfg": the same with the list in a configuration file (`as-numbers=n1,n2,...`, option -c).
    Scratch files live under $ASN_SCRATCH (the check's per-run scratch directory) and are removed."""
    from netconan.netconan import main
    d = tempfile.mkdtemp(prefix="asncli_", dir=os.environ.get("ASN_SCRATCH") or None)
    try:
        inp, outp = os.path.join(d, "in.cfg"), os.path.join(d, "out.cfg")
        with open(inp, "w", encoding="utf-8", newline="") as fh:
            fh.write(text)
        argv = ["-i", inp, "-o", outp, "-s", obj["salt"]]
        if kind == "cli":
            argv += ["-n", ",".join(obj["list"])]
        elif kind == "cliresv":      # every listed number is also a user reserved word (-r)
            argv += ["-n", ",".join(obj["list"]), "-r", ",".join(obj["list"])]
        else:
            cfg = os.path.join(d, "netconan.conf")
            with open(cfg, "w", encoding="utf-8") as fh:
                fh.write("as-numbers=%s\n" % ",".join(obj["list"]))
            argv += ["-c", cfg]
        try:
            main(argv)
        except SystemExit as e:
            raise RuntimeError("SystemExit(%r)" % (e.code,))
        if not os.path.isfile(outp):
            raise NoOutput("main(%s) wrote no output file" % (argv[4:],))
        with open(outp, "r", encoding="utf-8", newline="") as fh:
            return fh.read()
    finally:
        shutil.rmtree(d, ignore_errors=True)


def run_line(kind, obj, text):
    if kind in CLI_KINDS:
        return run_cli(kind, obj, text)
    if kind == "class":
        from netconan.sensitive_item_removal import anonymize_as_numbers
        return anonymize_as_numbers(obj, text)
    out = io.StringIO()
    obj.anonymize_io(io.StringIO(text), out)
    return out.getvalue()


def execute(ops, insts=None):
    """Run a script; returns the list of events (exactly one per operation)."""
    insts = {} if insts is None else insts
    evs = []
    raw_out = {}
    for op in ops:
        what = op[0]
        if what == "new":
            # salt: a string | None (FileAnonymizer generates and reports one) | {"of": j} (the salt
            # reported by instance j); optional 6th element: the api level whose salt name space the
            # instance joins (default: its own kind)
            _, i, kind, salt, lst = op[:5]
            ns = op[5] if len(op) > 5 else ("file" if kind in CLI_KINDS else kind)   # -s S is FileAnonymizer's salt
            salts = insts.setdefault("salts", {})
            obj, outcome, used = None, "ok", salt
            try:
                if isinstance(salt, dict):
                    used = salts.get(salt["of"])
                    if used is None:
                        raise common.MachineryError("no reported salt to reuse")
                    obj = construct(kind, lst, used)
                elif salt is None:
                    obj, used = construct_without_salt(lst)
                else:
                    obj = construct(kind, lst, salt)
            except common.MachineryError:
                outcome, used = "unobserved", None
            except Exception as e:
                obj, outcome = None, _outcome(e)
            if used is None:
                # nothing to key the observations with: an opaque one-off salt (compared with nothing)
                obj = None if outcome == "unobserved" else obj
                sid = "u%d/%d" % (id(insts), i)
                outcome = "ok" if outcome == "unobserved" else outcome
                unobserved = True
            else:
                sid = hexsalt(ns, used)
                unobserved = False
            salts[i] = used
            insts[i] = (kind, obj)
            evs.append({"ev": "new", "inst": i, "salt": sid, "list": [digits(n) for n in lst],
                        "outcome": outcome})
            if unobserved:
                evs[-1]["salt_unobserved"] = True
        elif what == "anon":
            _, i, ns, learn = op
            kind, obj = insts[i]
            ev = {"ev": "anon", "inst": i, "pairs": [], "learn": bool(learn), "outcome": "ok"}
            if obj is not None:
                try:
                    for n in ns:
                        r = obj.anonymize(n)
                        if not isinstance(r, str):
                            raise TypeError("anonymize returned %s" % type(r).__name__)
                        ev["pairs"].append([digits(n), codes(r)])
                except Exception as e:
                    ev["outcome"] = _outcome(e)
                    ev["what"] = repr(e)[:200]
            evs.append(ev)
        elif what == "line":
            _, i, text = op
            if isinstance(text, dict):           # {"out": k}: the raw output of the k-th operation of this script
                text = raw_out[text["out"]]
            kind, obj = insts[i]
            enc = codes_projected if kind in PROJECTING else codes
            ev = {"ev": "line", "inst": i, "in": enc(text), "out": [], "outcome": "ok"}
            if kind in PROJECTING:
                ev["raw_in"] = text
            raw_out[len(evs)] = text
            if obj is None:
                ev["out"] = ev["in"]
            else:
                try:
                    r = run_line(kind, obj, text)
                    if not isinstance(r, str):
                        raise TypeError("returned %s" % type(r).__name__)
                    ev["out"] = enc(r)
                    raw_out[len(evs)] = r
                    if kind in PROJECTING:
                        ev["raw_out"] = r
                except Exception as e:
                    ev["outcome"] = _outcome(e)
                    ev["what"] = repr(e)[:200]
            evs.append(ev)
        else:
            raise common.MachineryError("unknown operation %r" % (what,))
    return evs


def child_main():
    """stdin: {job id: ops}; stdout: {job id: events}.  One fresh interpreter, jobs in the given order,
    instances of earlier jobs stay alive (they are the 'anonymizers created before')."""
    jobs = json.load(sys.stdin)
    out = {}
    keep = []
    for jid, ops in jobs:
        insts = {}
        out[jid] = execute(ops, insts)
        keep.append(insts)
    json.dump(out, sys.stdout)


if __name__ == "__main__":
    child_main()
