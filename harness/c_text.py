"""C06 (address substitution in text) and the text-level parts of C05, C02, C03.

TLC generates the lines (AddrGen.tla: all short strings over a boundary
alphabet; dotted candidates x contexts; colon-hex candidates x contexts; mask
values and their one-bit perturbations), the real code rewrites them, and TLC
judges each <input line, output line> pair with its own scanner (AddrText.tla)
and the address-map clauses of PrefixMap.tla (TextTrace.tla).
"""
import io
import json
import os
import sys

import common
import ipdrive as D
import tlc
from common import Check, rng, validate_traces
from netconan import anonymize_files as AF
from netconan import ip_anonymization as ipa

TEXT_CLAUSES = ["Structure", "Spelling", "Kept", "Consistent", "Pins", "Suffix", "Nets"]


def cps(s):
    return [ord(c) for c in s]


def gen_cases(ck, mode, maxlen=0, wide=False, inv=True):
    out = os.path.join(tlc.subdir("gen"), "cases_%s_%d.ndjson" % (mode, os.getpid()))
    if os.path.exists(out):
        os.remove(out)
    invs = "INVARIANT Disjoint\nINVARIANT SelfAlign\nINVARIANT Delimited\n" if mode != "mask" else "INVARIANT MaskOK\n"
    cfg = ('CONSTANTS Mode = "%s"  MaxLen = %d  Wide = %s\nSPECIFICATION Spec\n%sINVARIANT Emit\nCHECK_DEADLOCK FALSE\n'
           % (mode, maxlen, "TRUE" if wide else "FALSE", invs))
    r = tlc.require_ok(tlc.run("AddrGen", "gen.cfg", workers=16, env={"OUT_FILE": out}, extra={"gen.cfg": cfg}, timeout=3000),
                       "AddrGen mode=%s" % mode)
    ck.states += r.distinct
    ck.transitions += r.generated
    ck.models.append({"module": "AddrGen", "cfg": "mode=%s maxlen=%d wide=%s" % (mode, maxlen, wide),
                      "what": "case enumeration + scanner sanity (tokens disjoint, delimited, self-alignment)", **r.summary()})
    lines = sorted(set(open(out).read().splitlines()))
    os.remove(out)
    return [json.loads(x) for x in lines]


class Cfg:
    def __init__(self, salt, ps4=8, ps6=8, pins=None, nets=None, on4=True, on6=True, undo=False, raw_pins=None, raw_nets=None):
        self.salt, self.ps4, self.ps6, self.pins, self.nets = salt, ps4, ps6, pins, nets
        self.on4, self.on6, self.undo = on4, on6, undo
        # what the real code is given when the lists also name IPv6 networks (TLC is told the IPv4 entries: pins / nets)
        self.raw_pins, self.raw_nets = raw_pins, raw_nets

    def event(self, clauses=TEXT_CLAUSES):
        pins, nets = D.expected_pins_v4(self.pins, self.nets)
        return {"ev": "cfg", "on4": self.on4, "on6": self.on6, "undo": self.undo, "ps4": self.ps4 or 0, "ps6": self.ps6 or 0,
                "pins4": pins, "nets4": nets, "clauses": list(clauses)}

    def describe(self):
        return {k: getattr(self, k) for k in ("salt", "ps4", "ps6", "pins", "nets", "on4", "on6", "undo")}

    def make(self):
        a4 = D.make_v4(self.salt, self.ps4, self.raw_pins if self.raw_pins is not None else self.pins,
                       self.raw_nets if self.raw_nets is not None else self.nets) if self.on4 else None
        a6 = D.make_v6(self.salt, self.ps6) if self.on6 else None
        return a4, a6

    def make_file_anonymizer(self):
        return AF.FileAnonymizer(anon_pwd=False, anon_ip=not self.undo, salt=self.salt, undo_ip_anon=self.undo,
                                 preserve_prefixes=list(self.raw_pins) if self.raw_pins is not None else None if self.pins is None else list(self.pins),
                                 preserve_networks=list(self.raw_nets) if self.raw_nets is not None else None if self.nets is None else list(self.nets),
                                 preserve_suffix_v4=self.ps4, preserve_suffix_v6=self.ps6)


def rewrite_stagewise(cfg, a4, a6, line):
    """IPv6 pass then IPv4 pass, exactly the two public calls anonymize_io makes."""
    out = line
    if a6 is not None:
        out = ipa.anonymize_ip_addr(a6, out, cfg.undo)
    if a4 is not None:
        out = ipa.anonymize_ip_addr(a4, out, cfg.undo)
    return out


def api_events(cfg):
    """A few integer-API calls on fresh instances with the same salt/options: ties text to the map."""
    ev = []
    a4, a6 = cfg.make()
    for fam, a, W, xs in ((4, a4, 32, [0x01010101, 0x01020304, 0x0A000001, 0xC0A80101]), (6, a6, 128, [1, (1 << 112) | 1, 0x20010DB8 << 96 | 1])):
        if a is None:
            continue
        for x in xs:
            try:
                if cfg.undo:
                    v = a.deanonymize(x)
                    ev.append({"ev": "deanon", "fam": fam, "x": D.bits_of(v, W), "y": D.bits_of(x, W)})
                else:
                    v = a.anonymize(x)
                    ev.append({"ev": "anon", "fam": fam, "x": D.bits_of(x, W), "y": D.bits_of(v, W)})
            except Exception as e:
                ev.append({"ev": "exc", "what": "api %r" % (e,)})
    return ev


def config_lines(cfg):
    """Lines that depend on the configuration's own mapping: originals whose images are mask-shaped (with that mask
    on the same and on an earlier line), the unspecified IPv6 address next to ::1 in several spellings, one address
    with and without a prefix length."""
    out = ["ipv6 route ::/0 ::1", "ipv6 host 0:0:0:0:0:0:0:0 0::", "ip address 11.11.12.13/16", "host 11.11.12.13", "ip address 99.1.2.3/8 99.1.2.3/30",
           "ipv6 address 2001:db8:5::9/32", "ipv6 host 2001:db8:5::9"]
    try:
        a4, _ = cfg.make()
        if a4 is not None:
            for m in (0xFFFF0000, 0x00000FFF, 0xFFFFFF00):
                x = a4.deanonymize(m)
                if a4.should_anonymize(x):
                    out.append("mask %s here" % D.ipaddress.IPv4Address(m))
                    out.append("ip address %s %s" % (D.ipaddress.IPv4Address(x), D.ipaddress.IPv4Address(m)))
                    out.append("neighbor %s" % D.ipaddress.IPv4Address(x ^ 0x100))
    except Exception:
        pass
    return out


def token_api_events(cfg, files):
    """The integer API of FRESH anonymizers asked for every plainly spelled address of the input files: whatever the
    text-level runs (any order, any process, any history) substitute must agree with this one mapping."""
    ev = []
    seen = set()
    a4, a6 = cfg.make()
    for name in sorted(files):
        for tok in files[name].replace("/", " ").split():
            if tok in seen:
                continue
            seen.add(tok)
            try:
                ip = D.ipaddress.ip_address(tok)
            except ValueError:
                continue
            fam, a, W = (4, a4, 32) if ip.version == 4 else (6, a6, 128)
            if a is None:
                continue
            try:
                ev.append({"ev": "anon", "fam": fam, "x": D.bits_of(int(ip), W), "y": D.bits_of(a.anonymize(int(ip)), W)})
            except Exception as e:
                ev.append({"ev": "exc", "what": "api %r" % (e,)})
    return ev


def line_traces(cfg, lines, per_trace=60, via="stage", clauses=TEXT_CLAUSES):
    """Run lines through the real code; returns (traces, meta)."""
    traces, meta = [], []
    for i in range(0, len(lines), per_trace):
        chunk = lines[i:i + per_trace]
        ev = [cfg.event(clauses)] + api_events(cfg)
        nhead = len(ev)
        texts = []
        try:
            if via == "stage":
                a4, a6 = cfg.make()
            else:
                fa = cfg.make_file_anonymizer()
        except Exception as e:
            ev.append({"ev": "exc", "what": "constructor %r" % (e,)})
            traces.append(ev)
            meta.append({"cfg": cfg.describe(), "via": via, "lines": [], "head": nhead})
            continue
        for ln in chunk:
            try:
                if via == "stage":
                    out = rewrite_stagewise(cfg, a4, a6, ln)
                else:
                    buf = io.StringIO()
                    fa.anonymize_io(io.StringIO(ln), buf)
                    out = buf.getvalue()
                ev.append({"ev": "line", "in": cps(ln), "out": cps(out)})
                texts.append((ln, out))
            except Exception as e:
                ev.append({"ev": "exc", "what": "line %r: %s: %s" % (ln, type(e).__name__, e)})
                texts.append((ln, "EXC %s" % type(e).__name__))
        traces.append(ev)
        meta.append({"cfg": cfg.describe(), "via": via, "lines": texts, "head": nhead})
    return traces, meta


def classify_line(ln):
    """Stable, input-class based key for a rejected line (used for known findings)."""
    import re
    tags = []
    if re.search(r"[0-9a-fA-F:]*:(\d+\.){3}\d+", ln):
        tags.append("v6-with-dotted-tail")
    if "%" in ln:
        tags.append("percent")
    if re.search(r"fe80:", ln, re.I):
        tags.append("fe80")
    return "+".join(tags) or "plain"


def judge(ck, pid, traces, meta, label):
    rejected, states = validate_traces("TextTrace", "TextTrace.cfg", traces, max_events_per_shard=2500)
    ck.traces += len(traces)
    ck.events += sum(len(t) for t in traces)
    ck.notes["trace_states"] = ck.notes.get("trace_states", 0) + states
    allrej = [(ti, k, clause) for ti, lst in sorted(common.all_rejections.items()) for k, clause in lst]
    for ti, k, clause in allrej:
        m = meta[ti]
        li = k - m["head"]
        if 0 <= li < len(m["lines"]):
            ln, out = m["lines"][li]
            key = "%s clause=%s class=%s" % (label, clause, classify_line(ln))
            what = "%s: %r -> %r rejected by TextTrace clause %s (cfg %s)" % (label, ln, out, clause, json.dumps(m["cfg"]))
        else:
            key = "%s clause=%s event=%d" % (label, clause, k)
            what = "%s: event %d rejected by clause %s: %s" % (label, k, clause, json.dumps(traces[ti][k])[:300])
        ck.violation(key, what, {"label": label, "cfg": m["cfg"], "via": m["via"], "trace": traces[ti][: k + 1], "event": k, "clause": clause})
    return rejected


EXTRA_LINES = [
    "interface fe80::1%eth0 up", "fe80:%x", "fe80::1:%x", "ip 1.2.3.4/24 next", "route 10.0.0.0 255.0.0.0 10.1.1.1",
    "[2001:db8::1]:443", "addr=2001:DB8:0:0:0:0:0:1;", "mac 00:11:22:33:44:55 aa:bb:cc:dd:ee:ff", "mac 0011.2233.4455",
    "ver 12.4.15.2.1 and 1.2.3", "x::ffff:1.2.3.4 y", "::ffff:1.2.3.4", "::1.2.3.4", "1::1.2.3.4", "1:2:3:4:5:6:1.2.3.4",
    "1:2:3:4:5::1.2.3.4", "::ffff:0:1.2.3.4", "64:ff9b::192.0.2.33", "a 001.002.003.004 b", "1.2.3.4.", ".1.2.3.4", "1.2.3.4:80",
    "::", "::/0", "::1/128", "1::/64", "2001:db8::/32 via fe80::1", "time 12:34:56", "12:34:56:78:9a:bc:de:f0", "a::b::c", ":::", "1:::2",
    "\t10.0.0.1\t", "ip 1.2.3.4", "1.2.3.4é", "é1.2.3.4", "0.0.0.0 255.255.255.255 128.0.0.0 0.0.0.1 0.0.1.255",
]


def run_c06(tier):
    pid = "C06"
    ck = Check(pid, tier)
    thorough = tier == "thorough"
    ck.assumptions = ["the token definition of the property's quantifier (maximal runs of ASCII letters/digits/'.' resp. ':')",
                      "which address replaces which is decided by PrefixMap's clauses on the aligned <<token, replacement>> pairs",
                      "TLC and the code-point projection are trusted"]
    cases = []
    import concurrent.futures
    modes = (("strings", 5 if thorough else 3, thorough), ("v4", 0, thorough), ("v6", 0, thorough))
    with concurrent.futures.ThreadPoolExecutor(max_workers=3) as ex:
        for (mode, maxlen, wide), cs in zip(modes, ex.map(lambda m: gen_cases(ck, *m), modes)):
            ck.notes["cases_" + mode] = len(cs)
            cases += [("".join(chr(c) for c in x["s"]), x) for x in cs]
    if not thorough:
        # quick: every string <= 3, and a seed-dependent third of the candidate lines (thorough runs all of them)
        rq = rng(pid, "quick-sample")
        short = [c for c in cases if len(c[0]) <= 3]
        rest = [c for c in cases if len(c[0]) > 3]
        cases = short + rq.sample(rest, min(len(rest), 7000))
        ck.notes["quick_sampled_cases"] = len(cases)
    lines = [c[0] for c in cases] + EXTRA_LINES
    ndc = sum(1 for c in cases if c[1].get("dc"))
    ck.notes["dont_care_lines"] = ndc
    for ln in lines:
        ck.count(ln)
    cfgs = [Cfg("TESTSALT")]
    if thorough:
        cfgs += [Cfg("", ps4=0, ps6=0), Cfg("zé", ps4=17, ps6=32, pins=[])]
    traces, meta = [], []
    for cfg in cfgs:
        t, m = line_traces(cfg, lines)
        traces += t
        meta += m
    # the same lines through FileAnonymizer.anonymize_io (whole pipeline, only the address stages on)
    r = rng(pid, "io")
    sub = r.sample(lines, min(len(lines), 6000 if thorough else 1000)) + EXTRA_LINES
    t, m = line_traces(Cfg("other salt", ps4=8, ps6=8), sub, via="io")
    traces += t
    meta += m
    # very long lines (one-line dumps): an address lying across a 64 KiB / 8 KiB boundary is still one token
    long_lines = []
    for boundary in (65536, 8192, 131072):
        for tok, off in (("123.45.67.89", 6), ("2001:db8:85a3::8a2e:370:7334", 11), ("10.20.30.40", 3)):
            long_lines.append(" " * (boundary - off) + tok + " end " + "198.51.100.7")
    t, m = line_traces(Cfg("longline"), long_lines[: 9 if thorough else 2], per_trace=1, via="io")
    traces += t
    meta += m
    # every bit preserved (image = original): the replacement must still be the canonical spelling
    t, m = line_traces(Cfg("allbits", ps4=32, ps6=128), EXTRA_LINES + ["a 010.001.002.007 b", "10.1.2.07/24", "2001:0DB8:0000:0000:0000:0000:0000:00AB", "FE80::1 x", "::FFFF:1.2.3.4"])
    traces += t
    meta += m
    # one family at a time
    t, m = line_traces(Cfg("TESTSALT", on6=False), r.sample(lines, min(len(lines), 1500 if thorough else 600)) + EXTRA_LINES)
    traces += t
    meta += m
    t, m = line_traces(Cfg("TESTSALT", on4=False), r.sample(lines, min(len(lines), 1500 if thorough else 600)) + EXTRA_LINES)
    traces += t
    meta += m
    # the public per-line call takes the direction per call: one long-lived pair of anonymizers is asked to rewrite
    # and to undo the SAME spellings, interleaved (originals, images, originals again)
    for icfg in (Cfg("both-ways"), Cfg("both-ways-0", ps4=0, ps6=0, pins=[])):
        a4, a6 = icfg.make()
        ins = ["a 1.2.3.4 b 2001:db8::7", "x 010.1.2.3/24 y", "ntp ::ffff:9.8.7.6", "h 99.1.2.3 99.1.2.3", "v6 fe80::1%eth0 FE80::1", "r 172.20.1.9 via 8.8.4.4"]
        ev = [icfg.event(TEXT_CLAUSES)] + api_events(icfg)
        head = len(ev)
        tx = []
        ucfg = Cfg(icfg.salt, ps4=icfg.ps4, ps6=icfg.ps6, pins=icfg.pins, undo=True)
        try:
            fwd = [rewrite_stagewise(icfg, a4, a6, ln) for ln in ins]
            for ln, o in zip(ins, fwd):
                ev.append({"ev": "line", "in": cps(ln), "out": cps(o)})
                tx.append((ln, o))
            for rnd in range(2):
                ev.append({"ev": "mode", "undo": True})
                tx.append(("", ""))
                for ln in ins + fwd:
                    o = rewrite_stagewise(ucfg, a4, a6, ln)
                    ev.append({"ev": "line", "in": cps(ln), "out": cps(o)})
                    tx.append((ln, o))
                ev.append({"ev": "mode", "undo": False})
                tx.append(("", ""))
                for ln in fwd + ins:
                    o = rewrite_stagewise(icfg, a4, a6, ln)
                    ev.append({"ev": "line", "in": cps(ln), "out": cps(o)})
                    tx.append((ln, o))
        except Exception as e:
            ev.append({"ev": "exc", "what": "interleaved directions: %r" % (e,)})
            tx.append(("interleaved", "EXC"))
        traces.append(ev)
        meta.append({"cfg": icfg.describe(), "via": "stage, both directions on one pair of objects", "lines": tx, "head": head})
    # what an EARLIER anonymizer with other options did in this process is no business of a later one: first instances
    # that preserve the private blocks / a user block meet the addresses, then instances without those blocks
    hist_lines = ["host 10.1.2.3 10.200.0.9", "peer 172.20.1.1 192.168.7.7", "host 11.11.11.17 11.11.11.200", "route 10.1.2.3 255.255.255.0 172.20.1.1", "v6 2001:db8::7 fe80::1"]
    for via in ("stage", "io"):
        line_traces(Cfg("history", nets=list(D.PRIVATE_NETS) + ["11.11.11.16/28"]), hist_lines, via=via)       # (judged elsewhere: C05)
        for hcfg in (Cfg("history"), Cfg("history", ps4=0, ps6=0, pins=[])):
            a4, a6 = hcfg.make()
            ev = [hcfg.event(TEXT_CLAUSES)] + api_events(hcfg) + token_api_events(hcfg, {"h": "\n".join(hist_lines)})
            head = len(ev)
            t, m = line_traces(hcfg, hist_lines, via=via)
            traces.append(ev + t[0][len(t[0]) - len(hist_lines):])
            meta.append({"cfg": hcfg.describe(), "via": via + ", after instances with other options", "lines": m[0]["lines"], "head": head})
    judge(ck, pid, traces, meta, "text")
    # the repository's own tests re-run under the recorder: every anonymize_ip_addr call they make
    import c_suite
    st, sm = c_suite.line_traces(TEXT_CLAUSES)
    c_suite.note(ck)
    ck.notes["repository_test_suite_line_events"] = sum(len(t) - 1 for t in st)
    judge(ck, pid, st, [{"cfg": m["suite_cfg"], "via": "repository-test-suite", "lines": m["texts"][1:], "head": 1} for m in sm], "repository-test-suite")
    ck.sample({"lines": [meta[0]["lines"][i] for i in range(0, min(40, len(meta[0]["lines"])), 8)]})
    ck.sample({"lines": meta[len(meta) // 2]["lines"][:5]})
    ck.rule = ("cases = distinct input lines enumerated by TLC (AddrGen: all strings <= N over the boundary alphabet; dotted candidates; "
               "colon-hex candidates; each in varied contexts) plus a fixed list of realistic lines; each is run under >= 1 configuration "
               "stage-wise and through anonymize_io; all distinct lines are non-trivial by construction of the vocabularies")
    ck.exhaustive = False
    return ck.finish()


def run(pid, tier):
    return run_c06(tier)


if __name__ == "__main__":
    common.main_wrapper(lambda: run("C06", sys.argv[1] if len(sys.argv) > 1 else "quick"))


# ---------------------------------------------------------------------------
# text-level part of C05: masks, preserved networks
# ---------------------------------------------------------------------------
def dotted(bits, zeros=False):
    n = D.int_of(bits)
    parts = [(n >> s) & 255 for s in (24, 16, 8, 0)]
    return ".".join(("%03d" % p) if zeros else str(p) for p in parts)


def text_part_c05(ck, tier):
    thorough = tier == "thorough"
    r = rng("C05", "text")
    cases = gen_cases(ck, "mask")
    ck.notes["mask_cases"] = len(cases)
    lines = []
    for i, c in enumerate(cases):
        q = dotted(c["bits"], zeros=(i % 5 == 4))
        lines.append([" ip address 10.1.1.1 %s", "%s", "network 172.20.3.0 %s area 0", "mask=%s;", " permit ip any %s 0.0.0.255",
                      "ip route %s/0 via 10.9.9.9", "prefix-list x permit %s/32", "%s/8"][i % 8] % q)
    if not thorough:
        lines = r.sample(lines, 900)
    clauses = ["Structure", "Kept", "Nets", "Spelling", "Consistent", "Pins", "Suffix"]
    traces, meta = [], []
    for cfg in [Cfg("TESTSALT"), Cfg("m", ps4=0, ps6=0, pins=[])][: 2 if thorough else 1]:
        t, m = line_traces(cfg, lines, clauses=clauses)
        traces += t
        meta += m
    # preserved networks / addresses
    netcfgs = [Cfg("n1", nets=list(D.PRIVATE_NETS)), Cfg("n2", ps4=0, nets=["11.11.11.11", "100.64.0.0/10"]),
               Cfg("n3", ps4=4, nets=["10.1.0.0/16", "172.20.1.1"] + list(D.PRIVATE_NETS)),
               Cfg("n4", ps4=8, pins=[], nets=["8.8.8.0/24", "8.8.0.0/16", "8.8.8.8"]),
               Cfg("n5", nets=["10.0.0.0/8", "10.128.0.0/9", "10.200.0.0/16", "172.16.5.4/31"]),
               # blocks shorter than /8 (addresses with another first octet), and blocks that start at the base address
               # of a shorter pinned prefix
               Cfg("n6", ps4=0, nets=["224.0.0.0/4", "64.0.0.0/3", "8.0.0.0/7"]),
               Cfg("n7", ps4=0, nets=["10.0.0.0/24", "172.16.0.0/16", "192.168.0.0/24", "100.64.0.0/29"]),
               Cfg("n8", ps4=0, pins=["100.64.0.0/10", "0.0.0.0/1"], nets=["100.64.0.0/29", "0.0.0.0/30"]),
               # the lists may also name IPv6 networks; the IPv4 blocks after them are preserved and pinned all the same
               Cfg("n9", ps4=0, nets=["11.11.0.0/16", "150.20.0.0/24"], raw_nets=["2001:db8::/32", "11.11.0.0/16", "fe80::/10", "150.20.0.0/24"]),
               Cfg("n10", ps4=4, pins=["11.0.0.0/8", "150.0.0.0/8"], raw_pins=["fc00::/7", "11.0.0.0/8", "150.0.0.0/8"], nets=["11.11.0.0/16"],
                   raw_nets=["2001:db8::/32", "11.11.0.0/16"])]
    for cfg in netcfgs:
        _, nets = D.expected_pins_v4(cfg.pins, cfg.nets)
        addrs = []
        for n in nets:
            L = len(n)
            lo = D.int_of(n + [0] * (32 - L))
            hi = D.int_of(n + [1] * (32 - L))
            addrs += [lo, hi, (lo - 1) % 2**32, (hi + 1) % 2**32] + [lo | r.getrandbits(32 - L) if L < 32 else lo for _ in range(6)]
        addrs += [r.getrandbits(32) for _ in range(40)] + [0x0A020001, 0xAC140102, 0x0A010001, 0x0AC80001, 0x0AC90001]
        addrs += [0x0B000000 | r.getrandbits(24) for _ in range(60 if cfg.raw_nets else 0)]      # many outside neighbours of 11.11/16
        ls = []
        for i, a in enumerate(addrs):
            q = dotted(D.bits_of(a, 32), zeros=(i % 7 == 6))
            ls.append(["ip route %s 255.255.255.255 Null0", "neighbor %s remote-as 65001", " address %s/24", "host %s", "%s"][i % 5] % q)
        t, m = line_traces(cfg, ls, clauses=clauses)
        traces += t
        meta += m
        t, m = line_traces(cfg, ls, clauses=clauses, via="io")
        traces += t
        meta += m
    # the command line: --preserve-private-addresses together with explicit --preserve-addresses
    for vi, (extra_nets, prefixes) in enumerate([(["10.1.0.0/16", "172.20.1.1"], None), (["11.11.0.0/16"], ["20.0.0.0/8", "11.0.0.0/8"]), ([], None)]):
        base = tlc.subdir("c05cli_%d" % vi)
        nets = list(D.PRIVATE_NETS) + extra_nets
        cfg = Cfg("cli-%d" % vi, ps4=8, ps6=8, pins=prefixes, nets=nets)
        rr = rng("C05", "cli", vi)
        addrs = [0x0A020304, 0x0A010203, 0x0AFFFFFE, 0xAC100001, 0xAC1F0102, 0xAC140101, 0xC0A80101, 0x0B0B0101, 0x0B0C0101, 0x14000509, 0x14010509] + [rr.getrandbits(32) for _ in range(120)]
        src = "".join("host %s\n" % D.ipaddress.IPv4Address(a) for a in addrs)
        os.makedirs(base, exist_ok=True)
        with open(os.path.join(base, "in.cfg"), "w") as fh:
            fh.write(src)
        args = ["-a", "-s", cfg.salt, "-i", os.path.join(base, "in.cfg"), "-o", os.path.join(base, "out.cfg"), "--preserve-private-addresses"]
        if extra_nets:
            args += ["--preserve-addresses", ",".join(extra_nets)]
        if prefixes is not None:
            args += ["--preserve-prefixes", ",".join(prefixes)]
        rc, err = run_main(args)
        ev = [cfg.event(clauses)] + api_events(cfg)
        texts = [None] * len(ev)
        if rc != 0 or not os.path.isfile(os.path.join(base, "out.cfg")):
            ev.append({"ev": "exc", "what": "main rc=%s %s" % (rc, err[-300:])})
            texts.append(("main", "EXC"))
        else:
            pair_lines(ev, texts, "in.cfg", src, open(os.path.join(base, "out.cfg")).read())
        traces.append(ev)
        meta.append({"cfg": cfg.describe(), "via": "main", "lines": [t if t else ("", "") for t in texts], "head": 0})
        # the other direction with the same options: preserved addresses are left alone by --undo as well
        uargs = ["-u"] + args[1:3] + ["-i", os.path.join(base, "in.cfg"), "-o", os.path.join(base, "undone.cfg")] + args[7:]
        rc, err = run_main(uargs)
        ucfg = Cfg(cfg.salt, ps4=8, ps6=8, pins=prefixes, nets=nets, undo=True)
        ev = [ucfg.event(clauses)]
        texts = [None]
        if rc != 0 or not os.path.isfile(os.path.join(base, "undone.cfg")):
            ev.append({"ev": "exc", "what": "main -u rc=%s %s" % (rc, err[-300:])})
            texts.append(("main", "EXC"))
        else:
            pair_lines(ev, texts, "in.cfg", src, open(os.path.join(base, "undone.cfg")).read())
        traces.append(ev)
        meta.append({"cfg": ucfg.describe(), "via": "main -u", "lines": [t if t else ("", "") for t in texts], "head": 0})
    for ln in lines:
        ck.count(("c05text", ln))
    judge(ck, "C05", traces, meta, "text")
    ck.sample({"mask_lines": meta[0]["lines"][:4]})


# ---------------------------------------------------------------------------
# file level: runs in separate processes, together / separately / reordered, undo
# ---------------------------------------------------------------------------
_MAIN = "import sys; from netconan.netconan import main; main(sys.argv[1:])"


def run_main(args, hashseed="0"):
    import subprocess
    env = dict(os.environ, PYTHONPATH=common.REPO, PYTHONHASHSEED=str(hashseed))
    p = subprocess.run([sys.executable, "-c", _MAIN] + args, env=env, stdout=subprocess.PIPE, stderr=subprocess.PIPE, text=True)
    return p.returncode, p.stderr


def sample_files(r, nfiles=3, nlines=14):
    pool4 = [r.getrandbits(32) for _ in range(10)] + [0x0A000001, 0x0A000101, 0xC0A80001, 0x08080808, 0x01010101]
    pool6 = [r.getrandbits(128) for _ in range(5)] + [1, 5, (0x20010DB8 << 96) | 1, (0xFE80 << 112) | 5]
    tmpl = ["interface Loopback%d", " ip address {a4} 255.255.255.0", " ipv6 address {a6}/64", "router bgp 65001", " neighbor {a4} remote-as 65002",
            "ip route {a4} 255.255.255.255 {b4}", "ntp server {a6}", "tunnel destination ::ffff:{a4}", "nat64 prefix 64:ff9b::{b4}", "! comment {a4} and {a6}", "access-list 10 permit {a4} 0.0.0.255", "logging host {b4}", ""]
    files = {}
    for f in range(nfiles):
        ls = []
        for i in range(nlines):
            t = r.choice(tmpl)
            if "%d" in t:
                t = t % i
            ls.append(t.format(a4=str(D.ipaddress.IPv4Address(r.choice(pool4))), b4=str(D.ipaddress.IPv4Address(r.choice(pool4))),
                               a6=str(D.ipaddress.IPv6Address(r.choice(pool6)))))
        if f < len(SPECIAL_FILE_LINES):
            ls += SPECIAL_FILE_LINES[f]
        name = ["r1.cfg", "sub dir/r2 é.cfg", "r3"][f % 3] if nfiles <= 3 else "f%d.cfg" % f
        files[name] = "\n".join(ls) + "\n"
    return files


# spellings and neighbourhoods that single features get wrong: IPv6 addresses without a decimal digit, a dotted tail after
# "::" and further groups (ISATAP), multicast, a preserved /28 with same-/24 neighbours on both sides (in two orders),
# blocks whose base address equals the base of a shorter pinned prefix
SPECIAL_FILE_LINES = [
    ["neighbor dead:beef::cafe activate", "ipv6 route fe::ab/127 ::a", "tunnel source fe80::5efe:10.1.2.3", "host 11.11.11.17", "host 11.11.11.200",
     "host 11.11.11.18", "igmp join 224.0.0.5 239.255.255.250", "host 10.0.0.5", "host 10.0.1.5", "peer 100.64.0.3 100.64.0.9"],
    ["isatap 2001:db8::1:10.1.2.3 up", "host 11.11.11.130", "host 11.11.11.31", "host 11.11.11.32", "ospf 224.0.0.6", "host 10.0.0.200", "host 10.0.2.9",
     "peer 100.64.0.7 100.64.1.1", "bgp ffff:abcd::dead:beef"],
    ["host 11.11.11.201", "host 11.11.11.16", "host 11.11.11.15", "neighbor cafe::f00d:face up", "host 10.0.0.77 10.1.0.77", "mixed 1:2:3:4:5:6:10.1.2.3"],
]


def write_tree(root, files):
    for name, text in files.items():
        p = os.path.join(root, name)
        os.makedirs(os.path.dirname(p), exist_ok=True)
        with open(p, "w", encoding="utf-8") as fh:
            fh.write(text)


def read_tree(root):
    out = {}
    for dp, _, fs in os.walk(root):
        for f in fs:
            p = os.path.join(dp, f)
            out[os.path.relpath(p, root)] = open(p, encoding="utf-8").read()
    return out


def pair_lines(ev, texts, name, src, dst):
    a, b = src.split("\n"), dst.split("\n")
    if len(a) != len(b):
        ev.append({"ev": "exc", "what": "file %s: %d lines in, %d lines out" % (name, len(a), len(b))})
        texts.append((name, "LINECOUNT"))
        return
    for x, y in zip(a, b):
        if x or y:
            ev.append({"ev": "line", "in": cps(x), "out": cps(y)})
            texts.append((x, y))


def dump_events(mapfile, ev, texts):
    """Append the dump events (one per family) for a map file written by -d."""
    pairs = {4: [], 6: []}
    bad = {4: [], 6: []}
    try:
        for line in open(mapfile, encoding="utf-8").read().splitlines():
            parts = line.split("\t")
            fam = None
            try:
                a, b = D.ipaddress.IPv4Address(parts[0]), D.ipaddress.IPv4Address(parts[1])
                fam = 4
            except (ValueError, IndexError):
                try:
                    a, b = D.ipaddress.IPv6Address(parts[0]), D.ipaddress.IPv6Address(parts[1])
                    fam = 6
                except (ValueError, IndexError):
                    bad[6 if ":" in line else 4].append(line[:80])
            if fam:
                W = 32 if fam == 4 else 128
                pairs[fam].append([D.bits_of(int(a), W), D.bits_of(int(b), W)])
        for fam in (4, 6):
            ev.append({"ev": "dump", "fam": fam, "pairs": pairs[fam], "bad": bad[fam]})
            texts.append(("dump family %d" % fam, "%d pairs, malformed lines %r" % (len(pairs[fam]), bad[fam])))
    except OSError as e:
        ev.append({"ev": "exc", "what": "map file: %r" % (e,)})
        texts.append(("dump", "EXC"))


def file_level(ck, pid, tier):
    """C03: together / separately (fresh processes) / reordered runs share one map.
    C02: main -u in a fresh process restores main -a output."""
    thorough = tier == "thorough"
    traces, meta = [], []
    salts = ["TESTSALT", "", "zé s", "pfx salt"] + (["0", "x" * 40] if thorough else [])
    for si, salt in enumerate(salts):
        r = rng(pid, "files", si)
        cfg = Cfg(salt, ps4=[8, 0, 17, 8][si % 4], ps6=[8, 0, 17, 8][si % 4])
        hb = ["--preserve-host-bits", str(cfg.ps4)]
        # option variants (the same options on every run of the scenario, in both directions)
        if si % 4 == 1:
            # private blocks plus a /28 whose /24 neighbours are not preserved, no host bits kept
            hb += ["--preserve-private-addresses", "--preserve-addresses", "11.11.11.16/28"]
            cfg.nets = ["11.11.11.16/28"] + list(D.PRIVATE_NETS)
        elif si % 4 == 2:
            # preserved blocks that start at the base address of a shorter pinned prefix
            cfg.nets = ["10.0.0.0/24", "100.64.0.0/29", "192.168.0.0/24"]
            hb += ["--preserve-addresses", ",".join(cfg.nets)]
        elif si % 4 == 3:
            # a user prefix list that does not set the address classes apart
            cfg.pins = ["10.0.0.0/8", "100.64.0.0/10"]
            hb += ["--preserve-prefixes", ",".join(cfg.pins)]
        files = sample_files(r)
        files["r1.cfg"] += "".join(ln + "\n" for ln in config_lines(cfg))
        if pid == "C02" and si == 0:
            # a one-line dump: an address lying across the 64 KiB boundary is still one address, in both directions
            files["r3"] += " " * (65536 - 6) + "123.45.67.89 end 198.51.100.7\n"
        base = tlc.subdir("files_%s_%d" % (pid, si))
        ind = os.path.join(base, "in")
        write_tree(ind, files)
        ev = [cfg.event(TEXT_CLAUSES)] + api_events(cfg) + token_api_events(cfg, files)
        texts = [None] * len(ev)
        mapfile = os.path.join(base, "ip.map")
        if pid == "C17":
            hb += ["-d", mapfile]
        if pid == "C17" and si % 2 == 0:
            # the map path already holds the map of an earlier, unrelated run: it must be replaced, not extended
            ind0 = os.path.join(base, "in0")
            write_tree(ind0, sample_files(rng(pid, "files-earlier", si), nfiles=2, nlines=8))
            run_main(["-a", "-s", "earlier-salt", "-i", ind0, "-o", os.path.join(base, "out0"), "-d", mapfile], hashseed=0)
        badname = None
        if pid == "C17" and si % 2 == 1:
            # a file that cannot be decoded, in a sub-directory (walked after the top-level files): the run goes on, and
            # the map still lists the replacements made in the files before and after it
            badname = os.path.join("a dir", "bad.bin")
            os.makedirs(os.path.join(ind, "a dir"), exist_ok=True)
            with open(os.path.join(ind, badname), "wb") as fh:
                fh.write(b"host 7.7.7.7\n\xff\xfe\x00bad\xff\n")
        # run 1: whole directory, one process
        out1 = os.path.join(base, "out1")
        rc, err = run_main(["-a", "-s", salt, "-i", ind, "-o", out1] + hb, hashseed=si)
        if badname and os.path.exists(os.path.join(out1, badname)):
            os.remove(os.path.join(out1, badname))          # whatever was left of the failed file is C16's business
        got = read_tree(out1) if os.path.isdir(out1) else {}
        if rc != 0 or set(got) != set(files):
            ev.append({"ev": "exc", "what": "main -a rc=%s files=%s err=%s" % (rc, sorted(got), err[-300:])})
            texts.append(("main", "EXC"))
        for name in sorted(got):
            pair_lines(ev, texts, name, files[name], got[name])
        if pid == "C17":
            # the dumped map must list exactly the replacements used in the output files
            dump_events(mapfile, ev, texts)
            if si == 0:
                # library entry point, three runs in ONE process: default options / a run that preserves networks /
                # default options again, writing its map: the third run's map and outputs are those of ITS options
                lb = os.path.join(base, "lib")
                lin = os.path.join(lb, "in")
                ltxt = "host 198.51.100.7\nhost 198.51.100.9 203.0.113.5\npeer 2001:db8::7\nhost 11.12.13.14\n"
                write_tree(lin, {"x.cfg": ltxt})
                drv = ("import sys\nfrom netconan.anonymize_files import anonymize_files as f\nb=sys.argv[1]\n"
                       "f(b+'/in', b+'/o1', False, True, salt='libsalt')\n"
                       "f(b+'/in', b+'/o2', False, True, salt='libsalt', preserve_networks=['198.51.100.0/24', '203.0.113.0/24'])\n"
                       "f(b+'/in', b+'/o3', False, True, salt='libsalt', dumpfile=b+'/m3')\n")
                import subprocess
                subprocess.run([sys.executable, "-c", drv, lb], env=dict(os.environ, PYTHONPATH=common.REPO), stdout=subprocess.PIPE, stderr=subprocess.PIPE, text=True)
                lcfg = Cfg("libsalt", ps4=None, ps6=None)
                ev3 = [lcfg.event(TEXT_CLAUSES)] + token_api_events(lcfg, {"x.cfg": ltxt})
                tx3 = [None] * len(ev3)
                o3 = os.path.join(lb, "o3", "x.cfg")
                if not os.path.isfile(o3):
                    ev3.append({"ev": "exc", "what": "third library run wrote no output"})
                    tx3.append(("library x3", "EXC"))
                else:
                    pair_lines(ev3, tx3, "x.cfg", ltxt, open(o3).read())
                    dump_events(os.path.join(lb, "m3"), ev3, tx3)
                traces.append(ev3)
                meta.append({"cfg": dict(lcfg.describe(), third_library_run_in_one_process=True), "via": "anonymize_files", "lines": [t if t else ("", "") for t in tx3], "head": 0})
            if si % 2 == 0:
                # a SECOND run in the same process, same salt and options, its own map file: the second map must be
                # complete on its own (nothing a run learned may be missing from its map because an earlier run knew it)
                out2, map2 = os.path.join(base, "out2"), os.path.join(base, "ip2.map")
                jf = os.path.join(base, "jobs.json")
                hb2 = [x if x != mapfile else map2 for x in hb]
                json.dump([["-a", "-s", salt, "-i", ind, "-o", os.path.join(base, "out1b")] + hb, ["-a", "-s", salt, "-i", ind, "-o", out2] + hb2], open(jf, "w"))
                import subprocess
                subprocess.run([sys.executable, "-c", "import json,sys\nfrom netconan.netconan import main\nfor a in json.load(open(sys.argv[1])): main(a)", jf],
                               env=dict(os.environ, PYTHONPATH=common.REPO), stdout=subprocess.PIPE, stderr=subprocess.PIPE, text=True)
                ev2 = [cfg.event(TEXT_CLAUSES)]
                tx2 = [None]
                got2 = read_tree(out2) if os.path.isdir(out2) else {}
                if set(got2) != set(files):
                    ev2.append({"ev": "exc", "what": "second run in one process: files %s" % sorted(got2)})
                    tx2.append(("main twice", "EXC"))
                for name in sorted(got2):
                    if name in files:
                        pair_lines(ev2, tx2, name, files[name], got2[name])
                dump_events(map2, ev2, tx2)
                traces.append(ev2)
                meta.append({"cfg": dict(cfg.describe(), second_run_in_one_process=True), "via": "files", "lines": [t if t else ("", "") for t in tx2], "head": 0})
        if pid == "C03":
            # run 2..: every file on its own, each in a fresh process, reversed order
            for name in sorted(files, reverse=True):
                o = os.path.join(base, "single", name)
                os.makedirs(os.path.dirname(o), exist_ok=True)
                rc, err = run_main(["-a", "-s", salt, "-i", os.path.join(ind, name), "-o", o] + hb, hashseed="random")
                if rc != 0 or not os.path.isfile(o):
                    ev.append({"ev": "exc", "what": "main -a (single file) rc=%s err=%s" % (rc, err[-300:])})
                    texts.append(("main", "EXC"))
                    continue
                pair_lines(ev, texts, name, files[name], open(o, encoding="utf-8").read())
            # run 3: library API, one anonymizer, files in another order, lines shuffled
            try:
                fa = cfg.make_file_anonymizer()
                names = sorted(files)
                r.shuffle(names)
                for name in names:
                    ls = files[name].split("\n")
                    r.shuffle(ls)
                    buf = io.StringIO()
                    fa.anonymize_io(io.StringIO("\n".join(ls)), buf)
                    pair_lines(ev, texts, name, "\n".join(ls), buf.getvalue())
            except Exception as e:
                ev.append({"ev": "exc", "what": "anonymize_io: %r" % (e,)})
                texts.append(("io", "EXC"))
        if pid == "C03" and si == 0:
            # no salt supplied and a file that cannot be written in the middle of the run: the files before and
            # after it still belong to ONE run and must share one mapping (whatever salt was generated)
            try:
                nb = os.path.join(base, "nosalt")
                nin, nout = os.path.join(nb, "in"), os.path.join(nb, "out")
                shared = ["ip address 11.22.33.44 255.255.255.0", "ip address 11.22.33.45 255.255.255.0", "ipv6 address 2001:db8:77::1/64", "neighbor 99.88.77.66 remote-as 1"]
                good = ["a1.cfg", "c3.cfg", "e5.cfg", "g7.cfg", "z9.cfg"]          # directory order is not sorted: several good
                tree = {n: "\n".join(shared[i % 2:] + shared[: i % 2]) + "\n" for i, n in enumerate(good)}   # files around two failing ones
                tree.update({"b2.cfg": "hostname x\n", "f6.cfg": "hostname y\n"})
                write_tree(nin, tree)
                for bad in ("b2.cfg", "f6.cfg"):
                    os.makedirs(os.path.join(nout, bad))                      # output path occupied by a directory
                import logging
                lg = logging.getLogger(); old = lg.level; lg.setLevel(logging.CRITICAL)
                try:
                    AF.anonymize_files(nin, nout, False, True, salt=None)
                finally:
                    lg.setLevel(old)
                ncfg = Cfg("<generated>", ps4=None, ps6=None)
                nev = [ncfg.event(["Structure", "Spelling", "Consistent", "Pins", "Suffix"])]
                ntexts = [None]
                for name in good:
                    po = os.path.join(nout, name)
                    if not os.path.isfile(po):
                        nev.append({"ev": "exc", "what": "no output for %s" % name})
                        ntexts.append((name, "missing"))
                    else:
                        pair_lines(nev, ntexts, name, open(os.path.join(nin, name)).read(), open(po).read())
                traces.append(nev)
                meta.append({"cfg": {"salt": None, "note": "no salt, failing file in the middle"}, "via": "files", "lines": [t if t else ("", "") for t in ntexts], "head": 0})
            except Exception as e:
                ev.append({"ev": "exc", "what": "no-salt run: %r" % (e,)})
                texts.append(("nosalt", "EXC"))
        if pid == "C02" and si < 3:
            # library round trip with DIFFERENT host-bit counts for the two families (the command line cannot say that)
            try:
                p4, p6 = [(8, 0), (4, 32), (0, 16)][si]
                fcfg = Cfg(salt + "/hb", ps4=p4, ps6=p6)
                src = "".join("peer %s %s\n" % (D.ipaddress.IPv4Address(r.getrandbits(32)), D.ipaddress.IPv6Address(r.getrandbits(128))) for _ in range(6)) + "peer 2001:db8::1 1.2.3.4\n"
                b1, b2 = io.StringIO(), io.StringIO()
                fcfg.make_file_anonymizer().anonymize_io(io.StringIO(src), b1)
                ucfg2 = Cfg(salt + "/hb", ps4=p4, ps6=p6, undo=True)
                ucfg2.make_file_anonymizer().anonymize_io(io.StringIO(b1.getvalue()), b2)
                ev2 = [fcfg.event(TEXT_CLAUSES)] + token_api_events(fcfg, {"s": src})
                tx2 = [None] * len(ev2)
                pair_lines(ev2, tx2, "forward", src, b1.getvalue())
                ev2.append({"ev": "mode", "undo": True})
                tx2.append(None)
                pair_lines(ev2, tx2, "undo", b1.getvalue(), b2.getvalue())
                traces.append(ev2)
                meta.append({"cfg": fcfg.describe(), "via": "FileAnonymizer round trip, host bits per family", "lines": [t if t else ("", "") for t in tx2], "head": 0})
            except Exception as e:
                ev.append({"ev": "exc", "what": "round trip with host bits per family: %r" % (e,)})
                texts.append(("hb-roundtrip", "EXC"))
        if pid == "C02":
            # undo FIRST on a long-lived pair of objects, then anonymize the result on the same objects, then undo again
            try:
                a4, a6 = cfg.make()
                ucfg = Cfg(salt, ps4=cfg.ps4, ps6=cfg.ps6, pins=cfg.pins, nets=cfg.nets, undo=True)
                seq_in = [ln for name in sorted(got) for ln in got[name].split("\n") if ln][:10]
                ev.append({"ev": "mode", "undo": True})
                texts.append(None)
                back1 = [rewrite_stagewise(ucfg, a4, a6, ln) for ln in seq_in]
                for ln, o in zip(seq_in, back1):
                    ev.append({"ev": "line", "in": cps(ln), "out": cps(o)})
                    texts.append((ln, o))
                ev.append({"ev": "mode", "undo": False})
                texts.append(None)
                for ln in back1 + seq_in[:4]:
                    o = rewrite_stagewise(cfg, a4, a6, ln)
                    ev.append({"ev": "line", "in": cps(ln), "out": cps(o)})
                    texts.append((ln, o))
            except Exception as e:
                ev.append({"ev": "exc", "what": "undo first, then anonymize on the same objects: %r" % (e,)})
                texts.append(("interleaved", "EXC"))
        if pid == "C03":
            # one long-lived pair of anonymizer objects asked to anonymize and to undo the SAME text, interleaved
            try:
                a4, a6 = cfg.make()
                texts_in = [ln for name in sorted(files) for ln in files[name].split("\n") if ln][:14] + [ln for ln in config_lines(cfg) if ln.startswith(("mask ", "ip address "))][:9]
                fwd = [rewrite_stagewise(cfg, a4, a6, ln) for ln in texts_in]
                for ln, o in zip(texts_in, fwd):
                    ev.append({"ev": "line", "in": cps(ln), "out": cps(o)})
                    texts.append((ln, o))
                ucfg = Cfg(salt, ps4=cfg.ps4, ps6=cfg.ps6, pins=cfg.pins, nets=cfg.nets, undo=True)
                ev.append({"ev": "mode", "undo": True})
                texts.append(None)
                for ln in texts_in[:7] + fwd[:7] + fwd[14:] + texts_in[14:]:   # originals and images, undone on the same objects
                    o = rewrite_stagewise(ucfg, a4, a6, ln)
                    ev.append({"ev": "line", "in": cps(ln), "out": cps(o)})
                    texts.append((ln, o))
                ev.append({"ev": "mode", "undo": False})
                texts.append(None)
                for ln in texts_in[:7]:
                    o = rewrite_stagewise(cfg, a4, a6, ln)
                    ev.append({"ev": "line", "in": cps(ln), "out": cps(o)})
                    texts.append((ln, o))
            except Exception as e:
                ev.append({"ev": "exc", "what": "interleaved directions: %r" % (e,)})
                texts.append(("interleaved", "EXC"))
        if pid == "C02":
            # undo in a fresh process that has never seen the originals
            out2 = os.path.join(base, "undone")
            rc, err = run_main(["-u", "-s", salt, "-i", out1, "-o", out2] + hb, hashseed="random")
            back = read_tree(out2) if os.path.isdir(out2) else {}
            ev.append({"ev": "mode", "undo": True})
            texts.append(None)
            if rc != 0 or set(back) != set(got):
                ev.append({"ev": "exc", "what": "main -u rc=%s files=%s err=%s" % (rc, sorted(back), err[-300:])})
                texts.append(("main", "EXC"))
            for name in sorted(back):
                pair_lines(ev, texts, name, got.get(name, ""), back[name])
            # and undoing through the library on a fresh FileAnonymizer
            try:
                ucfg = Cfg(salt, ps4=cfg.ps4, ps6=cfg.ps6, pins=cfg.pins, nets=cfg.nets, undo=True)
                fa = ucfg.make_file_anonymizer()
                for name in sorted(got):
                    buf = io.StringIO()
                    fa.anonymize_io(io.StringIO(got[name]), buf)
                    pair_lines(ev, texts, name, got[name], buf.getvalue())
            except Exception as e:
                ev.append({"ev": "exc", "what": "undo anonymize_io: %r" % (e,)})
                texts.append(("io", "EXC"))
        traces.append(ev)
        meta.append({"cfg": cfg.describe(), "via": "files", "lines": [t if t else ("", "") for t in texts], "head": 0})
        ck.count(("files", pid, salt))
    judge(ck, pid, traces, meta, "files")
    ck.sample({"file_level": meta[0]["cfg"], "lines": [x for x in meta[0]["lines"] if x[0]][:4]})


# ---------------------------------------------------------------------------
# C04 through FileAnonymizer: host bits given separately for the two families
# ---------------------------------------------------------------------------
def hostbits_part_c04(ck, tier):
    r = rng("C04", "hostbits")
    traces, meta = [], []
    combos = [(8, 16), (0, 8), (None, 8), (4, 32), (16, 8), (8, 8), (32, 0), (0, 0)] + ([(1, 31), (24, 64), (8, 128)] if tier == "thorough" else [])
    for ps4, ps6 in combos:
        cfg = Cfg("hb-%s-%s" % (ps4, ps6), ps4=ps4, ps6=ps6)
        lines = []
        for _ in range(8):
            a4, a6 = r.getrandbits(32), r.getrandbits(128)
            for flip in range(3):
                b4 = a4 ^ (r.getrandbits(ps4) if ps4 else 0)          # same leading part, other host bits
                b6 = a6 ^ (r.getrandbits(min(ps6, 128)) if ps6 else 0)
                lines.append("peer %s %s" % (D.ipaddress.IPv4Address(b4), D.ipaddress.IPv6Address(b6)))
            t6 = (0x64FF9B << 104) | r.getrandbits(32)                 # 64:ff9b::a.b.c.d spelled with a dotted tail
            for flip in range(2):
                v = t6 ^ (r.getrandbits(min(ps6, 32)) if ps6 else 0)
                lines.append("nat64 64:ff9b::%s" % D.ipaddress.IPv4Address(v & 0xFFFFFFFF))
                # groups, "::", further groups, then the dotted tail (ISATAP and friends)
                lines.append("isatap fe80::5efe:%s via 2001:db8::1:%s" % (D.ipaddress.IPv4Address(v & 0xFFFFFFFF), D.ipaddress.IPv4Address((v ^ 0x01000000) & 0xFFFFFFFF)))
        t, m = line_traces(cfg, lines, via="io", clauses=["Structure", "Spelling", "Suffix", "Consistent", "Pins"])
        traces += t
        meta += m
        if ps4 and ps6:
            try:
                a4, a6 = cfg.make()
                ucfg = Cfg(cfg.salt, ps4=ps4, ps6=ps6, undo=True)
                ev = [cfg.event(["Structure", "Spelling", "Suffix", "Consistent", "Pins"]), {"ev": "mode", "undo": True}]
                tx = [("", "")]
                for ln in lines[:6]:
                    o = rewrite_stagewise(ucfg, a4, a6, ln)
                    ev.append({"ev": "line", "in": cps(ln), "out": cps(o)})
                    tx.append((ln, o))
                ev.append({"ev": "mode", "undo": False})
                tx.append(("", ""))
                for ln in lines[:12]:
                    o = rewrite_stagewise(cfg, a4, a6, ln)
                    ev.append({"ev": "line", "in": cps(ln), "out": cps(o)})
                    tx.append((ln, o))
                traces.append(ev)
                meta.append({"cfg": cfg.describe(), "via": "stage, undo first then anonymize on one pair of objects", "lines": tx, "head": 1})
            except Exception as e:
                traces.append([cfg.event(["Structure"]), {"ev": "exc", "what": "undo first: %r" % (e,)}])
                meta.append({"cfg": cfg.describe(), "via": "stage", "lines": [("undo-first", "EXC")], "head": 1})
        ck.count(("c04hostbits", ps4, ps6))
    judge(ck, "C04", traces, meta, "hostbits-via-FileAnonymizer")
    # the function-level entry point with preserved networks and NO explicit prefix list: the documented default
    # prefixes (classes + private blocks) still apply
    traces, meta = [], []
    for vi, nets in enumerate([["8.8.8.0/24"], ["100.64.0.0/10", "11.11.11.11"]]):
        base = tlc.subdir("c04af_%d" % vi)
        cfg = Cfg("af-%d" % vi, ps4=None, ps6=None, pins=None, nets=nets)
        rr = rng("C04", "af", vi)
        addrs = [0x0A010203, 0xAC1D3ADE, 0xC0A80101, 0x7F000001, 0x80000001, 0xC0000001, 0xE0000001, 0x08080808, 0x08080909, 0x08080900, 0x080807FF,
                 0x0B0B0B0A, 0x0B0B0B0C, 0x64800000, 0x643FFFFF] + [rr.getrandbits(32) for _ in range(40)]
        src = "".join("host %s\n" % D.ipaddress.IPv4Address(a) for a in addrs)
        src += "".join("peer %s\n" % D.ipaddress.IPv6Address(rr.getrandbits(128)) for _ in range(6)) + "peer 2001:db8::1 2001:db8::2\n"
        os.makedirs(base, exist_ok=True)
        with open(os.path.join(base, "in.cfg"), "w") as fh:
            fh.write(src)
        hb4 = [None, 4][vi]
        if hb4 is not None:
            cfg.ps4 = hb4                       # host bits given for IPv4 only: IPv6 keeps its own default (none)
        ev = [cfg.event(["Structure", "Spelling", "Kept", "Pins", "Suffix", "Consistent", "Nets"])]
        ev += token_api_events(cfg, {"in.cfg": src})
        texts = [None] * len(ev)
        try:
            kw = {} if hb4 is None else {"preserve_suffix_v4": hb4}
            AF.anonymize_files(os.path.join(base, "in.cfg"), os.path.join(base, "out.cfg"), False, True, salt=cfg.salt, preserve_networks=list(nets), **kw)
            pair_lines(ev, texts, "in.cfg", src, open(os.path.join(base, "out.cfg")).read())
        except Exception as e:
            ev.append({"ev": "exc", "what": "anonymize_files: %r" % (e,)})
            texts.append(("anonymize_files", "EXC"))
        traces.append(ev)
        meta.append({"cfg": cfg.describe(), "via": "anonymize_files", "lines": [t if t else ("", "") for t in texts], "head": 0})
    judge(ck, "C04", traces, meta, "anonymize_files-default-prefixes")
    # a user prefix list that also names IPv6 networks (the option is not restricted to IPv4): every IPv4 entry of the
    # list is still preserved, wherever it stands in the list.  TLC is told the IPv4 entries only.
    traces, meta = [], []
    for vi, plist in enumerate([["2001:db8::/32", "10.0.0.0/8", "150.20.0.0/16"], ["20.0.0.0/8", "fe80::/10", "fc00::/7", "30.0.0.0/7", "2001:db8::/48"]]):
        v4only = [x for x in plist if ":" not in x]
        cfg = Cfg("v6-in-list-%d" % vi, ps4=[0, 8][vi], ps6=8, pins=v4only)
        rr = rng("C04", "v6list", vi)
        addrs = []
        for pfx in v4only:
            n = D.ipaddress.ip_network(pfx)
            addrs += [int(n.network_address) | rr.getrandbits(32 - n.prefixlen) for _ in range(6)]
        addrs += [rr.getrandbits(32) for _ in range(12)]
        lines = ["host %s" % D.ipaddress.IPv4Address(a) for a in addrs]
        ev = [cfg.event(["Structure", "Spelling", "Pins", "Suffix", "Consistent"])]
        texts = [None]
        try:
            a4 = ipa.IpAnonymizer(cfg.salt, list(plist), preserve_suffix=cfg.ps4)
            fa = AF.FileAnonymizer(anon_pwd=False, anon_ip=True, salt=cfg.salt, preserve_prefixes=list(plist), preserve_suffix_v4=cfg.ps4, preserve_suffix_v6=8)
            for ln in lines:
                o = ipa.anonymize_ip_addr(a4, ln)
                ev.append({"ev": "line", "in": cps(ln), "out": cps(o)})
                texts.append((ln, o))
            src = "\n".join(lines) + "\n"
            buf = io.StringIO()
            fa.anonymize_io(io.StringIO(src), buf)
            pair_lines(ev, texts, "io", src, buf.getvalue())
        except Exception as e:
            ev.append({"ev": "exc", "what": "prefix list with IPv6 entries: %r" % (e,)})
            texts.append(("v6-in-list", "EXC"))
        traces.append(ev)
        meta.append({"cfg": dict(cfg.describe(), given_list=plist), "via": "stage+io", "lines": [t if t else ("", "") for t in texts], "head": 0})
    judge(ck, "C04", traces, meta, "prefix-list-with-ipv6-entries")
    # the caller's OWN list object handed to several constructions (with an empty networks list), and one-shot iterables
    traces, meta = [], []
    plist = ["10.0.0.0/8", "150.20.0.0/16"]
    shapes = [("same list object, first use", lambda: (plist, [])), ("same list object, second use", lambda: (plist, [])), ("same list object, third use", lambda: (plist, None)),
              ("generator", lambda: ((x for x in ["10.0.0.0/8", "150.20.0.0/16"]), None)), ("map object", lambda: (map(str.strip, " 10.0.0.0/8 , 150.20.0.0/16".split(",")), None)),
              ("tuple", lambda: (("10.0.0.0/8", "150.20.0.0/16"), None))]
    rr = rng("C04", "listobj")
    addrs = [0x0A000000 | rr.getrandbits(24) for _ in range(8)] + [0x96140000 | rr.getrandbits(16) for _ in range(6)] + [rr.getrandbits(32) for _ in range(6)]
    lines = ["host %s" % D.ipaddress.IPv4Address(a) for a in addrs]
    cfg = Cfg("listobj", ps4=0, ps6=0, pins=["10.0.0.0/8", "150.20.0.0/16"])
    for name, mk in shapes:
        ev = [cfg.event(["Structure", "Spelling", "Pins", "Suffix", "Consistent"])] + token_api_events(cfg, {"s": "\n".join(lines)})
        texts = [None] * len(ev)
        try:
            pp, pn = mk()
            fa = AF.FileAnonymizer(anon_pwd=False, anon_ip=True, salt=cfg.salt, preserve_prefixes=pp, preserve_networks=pn, preserve_suffix_v4=0, preserve_suffix_v6=0)
            src = "\n".join(lines) + "\n"
            buf = io.StringIO()
            fa.anonymize_io(io.StringIO(src), buf)
            pair_lines(ev, texts, name, src, buf.getvalue())
        except Exception as e:
            if name in ("generator", "map object"):
                ck.notes.setdefault("prefix_list_shapes_refused", []).append("%s: %s" % (name, type(e).__name__))
                continue
            ev.append({"ev": "exc", "what": "%s: %r" % (name, e)})
            texts.append((name, "EXC"))
        traces.append(ev)
        meta.append({"cfg": dict(cfg.describe(), list_shape=name), "via": "FileAnonymizer", "lines": [t if t else ("", "") for t in texts], "head": 0})
    judge(ck, "C04", traces, meta, "prefix-list-objects")


# ---------------------------------------------------------------------------
# C01 at the command line: common-prefix lengths over option combinations and spellings
# ---------------------------------------------------------------------------
def cli_part_c01(ck, tier):
    """Pairs of addresses at many common-prefix lengths, written in several spellings (plain, zero-padded, IPv6 hex,
    IPv6 with a dotted tail), through the real command line under option combinations; TextTrace requires every
    <token, replacement> pair to be consistent with every other one (that IS common-prefix preservation)."""
    traces, meta = [], []
    combos = [
        ([], None, None, 8),
        (["--preserve-private-addresses", "--preserve-addresses", "20.0.0.0/16,11.11.11.11"], list(D.PRIVATE_NETS) + ["20.0.0.0/16", "11.11.11.11"], None, 8),
        (["--preserve-prefixes", "20.0.0.0/8,11.0.0.0/8", "--preserve-host-bits", "0", "--preserve-addresses", "20.0.0.0/24,11.0.0.0/30"],
         ["20.0.0.0/24", "11.0.0.0/30"], ["20.0.0.0/8", "11.0.0.0/8"], 0),
        (["--preserve-private-addresses", "--preserve-host-bits", "17"], list(D.PRIVATE_NETS), None, 17),
    ]
    runs = [(vi, sx, c) for vi, c in enumerate(combos[: 4 if tier == "thorough" else 3]) for sx in ("", "/alt", "/3")]
    for vi, sx, (opts, nets, pins, hb) in runs:
        base = tlc.subdir("c01cli_%d%s" % (vi, sx.replace("/", "_")))
        os.makedirs(base, exist_ok=True)
        cfg = Cfg("c01-cli-%d%s" % (vi, sx), ps4=hb, ps6=hb, pins=pins, nets=nets)
        rr = rng("C01", "cli", vi, sx)
        lines = []
        for b4 in (0x14000509, 0x14000009, 0x0B000002, 0x0B0B0B1B, rr.getrandbits(32), 0x0A010203, 0xE0000005, 0xEFFFFFFA):
            for k in (3, 7, 9, 15, 16, 23, 27, 30):
                lines.append("a %s b %s" % (D.ipaddress.IPv4Address(b4), D.ipaddress.IPv4Address(b4 ^ (1 << (31 - k)) ^ rr.getrandbits(max(31 - k, 1) - 1 if 31 - k > 1 else 0))))
        for b6 in ((0x64FF9B << 104) | 0x0A010203, rr.getrandbits(128), (0x20010DB8 << 96) | 0xAC140101):
            v4tail = str(D.ipaddress.IPv4Address(b6 & 0xFFFFFFFF))
            hexform = str(D.ipaddress.IPv6Address(b6))
            head = str(D.ipaddress.IPv6Address(b6 >> 32 << 32)).rstrip(":")
            dotted = (head + ":" if not head.endswith(":") else head) + v4tail if (b6 >> 32 << 32) else "::" + v4tail
            try:
                ok = int(D.ipaddress.IPv6Address(dotted)) == b6
            except ValueError:
                ok = False
            lines.append("p %s q %s" % (hexform, dotted if ok else hexform))
            for k in (10, 64, 100, 110, 120, 126):
                lines.append("p %s q %s" % (hexform, D.ipaddress.IPv6Address(b6 ^ (1 << (127 - k)))))
        lines += config_lines(cfg)
        src = "\n".join(lines) + "\n"
        with open(os.path.join(base, "in.cfg"), "w") as fh:
            fh.write(src)
        rc, err = run_main(["-a", "-s", cfg.salt, "-i", os.path.join(base, "in.cfg"), "-o", os.path.join(base, "out.cfg")] + opts)
        ev = [cfg.event(["Structure", "Spelling", "Consistent"])] + (token_api_events(cfg, {"in.cfg": src}) if sx == "" else [])
        texts = [None] * len(ev)
        if rc != 0 or not os.path.isfile(os.path.join(base, "out.cfg")):
            ev.append({"ev": "exc", "what": "main rc=%s %s" % (rc, err[-300:])})
            texts.append(("main", "EXC"))
        else:
            pair_lines(ev, texts, "in.cfg", src, open(os.path.join(base, "out.cfg")).read())
        traces.append(ev)
        meta.append({"cfg": dict(cfg.describe(), cli=opts), "via": "main", "lines": [t if t else ("", "") for t in texts], "head": 0})
        ck.count(("c01cli", vi, sx))
    # one long-lived pair of anonymizers used in BOTH directions through the public per-line call: what was undone first
    # must afterwards be anonymized like everything else (common-prefix lengths among all answers)
    for icfg in (Cfg("c01-both-ways"), Cfg("c01-both-ways-0", ps4=0, ps6=0, pins=[])):
        try:
            a4, a6 = icfg.make()
            ucfg = Cfg(icfg.salt, ps4=icfg.ps4, ps6=icfg.ps6, pins=icfg.pins, undo=True)
            ins = ["a 20.0.5.9 b 20.0.5.8", "p 2001:db8::7 q 2001:db8::6", "h 99.1.2.3 99.1.2.2"]
            ev = [icfg.event(["Structure", "Spelling", "Consistent"])] + token_api_events(icfg, {"s": "\n".join(ins)}) + [{"ev": "mode", "undo": True}]
            tx = [None] * len(ev)
            for ln in ins[:2]:
                o = rewrite_stagewise(ucfg, a4, a6, ln)
                ev.append({"ev": "line", "in": cps(ln), "out": cps(o)})
                tx.append((ln, o))
            ev.append({"ev": "mode", "undo": False})
            tx.append(None)
            for ln in ins:
                o = rewrite_stagewise(icfg, a4, a6, ln)
                ev.append({"ev": "line", "in": cps(ln), "out": cps(o)})
                tx.append((ln, o))
            traces.append(ev)
            meta.append({"cfg": icfg.describe(), "via": "stage, undo first then anonymize", "lines": [t if t else ("", "") for t in tx], "head": 0})
        except Exception as e:
            traces.append([icfg.event(["Structure"]), {"ev": "exc", "what": "both ways: %r" % (e,)}])
            meta.append({"cfg": icfg.describe(), "via": "stage", "lines": [("", ""), ("both-ways", "EXC")], "head": 0})
    judge(ck, "C01", traces, meta, "command-line")
