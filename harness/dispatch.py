"""Maps property ids to check modules."""
import argparse
import importlib
import os
import sys

MODULES = {
    "C01": "c_ip", "C02": "c_ip", "C03": "c_ip", "C04": "c_ip", "C05": "c_ip", "C17": "c_ip", "C18": "c_juniper", "C06": "c_text", "C07": "c_secrets", "C08": "c_secrets", "C09": "c_secrets", "C10": "c_words", "C11": "c_asnum", "C12": "c_pipe", "C13": "c_process", "C14": "c_pipe", "C15": "c_pipe", "C16": "c_files", "C19": "c_cli",
}


def setup():
    import compileall
    import tlc
    ok = compileall.compile_dir(os.path.dirname(os.path.abspath(__file__)), quiet=1)
    bad = 0
    d = tlc.stage(tlc.all_spec_files())
    for f in sorted(os.listdir(d)):
        if f.endswith(".tla"):
            good, out = tlc.sany(os.path.join(d, f))
            if not good:
                bad += 1
                print("SANY failed on", f)
                print(out[-1500:])
    print("setup: harness compiled=%s, spec parse failures=%d" % (bool(ok), bad))
    return 0 if ok and not bad else 2


def main(argv):
    if argv and argv[0] == "setup":
        sys.exit(setup())
    ap = argparse.ArgumentParser()
    ap.add_argument("pid")
    ap.add_argument("--tier", default=os.environ.get("VERIF_TIER", "quick"))
    ap.add_argument("--replay", default=None)
    a = ap.parse_args(argv)
    import common
    if a.pid == "selftest":
        import selftest
        common.main_wrapper(lambda: selftest.run(a.tier))
    mod = importlib.import_module(MODULES[a.pid])
    if a.replay:
        if hasattr(mod, "replay"):
            common.main_wrapper(lambda: mod.replay(a.pid, a.replay))
        common.main_wrapper(lambda: common.generic_replay(a.pid, a.replay, mod))
    common.main_wrapper(lambda: mod.run(a.pid, a.tier))
