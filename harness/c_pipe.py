"""C12 (structure conserved), C14 (totality), C15 (multi-feature = chain of single features).

TLC generates the cases (PipeGen.tla: texts of line kinds x feature sets x
terminators, with the design-level theorems ChainEqualsMulti / Conserved;
AdvGen.tla: adversarial fillings of keyword frames x salt classes x feature
sets), the harness concretizes and runs them through the real entry points,
and TLC judges every line / pair (Pipeline.tla).
"""
import io
import json
import logging
import os
import re
import sys

import common
import secretgen as G
import tlc
from common import Check, rng, validate_traces
from netconan import anonymize_files as AF
from netconan import ip_anonymization as ipa
from netconan import sensitive_item_removal as SIR

WORDS = ["kitten", "zurnet", "cafe", "addr", "conan", "65001"]      # "addr" is part of reserved words, "conan" of the placeholders, "65001" is also a listed AS number
FIXED_T7 = "0822455D0A16544541"          # the same type-7 secret wherever the fixed-secret kinds occur
BASE_ASNS = ["65001", "12", "4200000001", "0", "1"]
_as_cache = {}


def asns_for(salt):
    """Listed AS numbers: a fixed base plus the digit runs of the pseudonyms the word stage produces under this salt
    (public API), so that the word stage and the AS stage really interact (order of the two stages matters)."""
    if salt not in _as_cache:
        extra = []
        try:
            for w in WORDS + [x.upper() for x in WORDS]:
                ps = SIR.SensitiveWordAnonymizer([w], salt, []).anonymize(w)
                extra += [d for d in re.findall(r"[0-9]+", ps) if 0 < int(d) < 4294967296 and d == str(int(d))]
        except Exception:
            pass
        _as_cache[salt] = BASE_ASNS + sorted(set(extra) - set(BASE_ASNS))
    return _as_cache[salt]


ASNS = BASE_ASNS


def cps(s):
    return [ord(c) for c in s]


# ---------------------------------------------------------------------------
# concretization of line kinds: list of (token text, feature or None)
# ---------------------------------------------------------------------------
def kind_tokens(kind, r):
    sec = G.gen_secret(r, r.choice(["text", "hex", "type7", "md5"]))
    v4 = "%d.%d.%d.%d" % (r.choice([11, 100, 172, 198]), r.randint(0, 255), r.randint(0, 255), r.randint(1, 254))
    v6 = "2001:db8:%x::%x" % (r.randint(0, 65535), r.randint(1, 65535))
    table = {
        "blank": ("", []),
        "spaces": (r.choice(["   ", "\t", " \t "]), []),
        "plain": (r.choice(["", " ", "  "]), [("interface", None), ("GigabitEthernet0/%d" % r.randint(0, 9), None), ("point-to-point", None)]),
        "plain-tabs": ("\t", [("description", None), ("uplink-to-core", None)]),
        "pwd": (" ", [("enable", None), ("secret", None), (sec, "pwd")]),
        "v4": (" ", [("ip", None), ("address", None), (v4, "ip"), ("255.255.255.0", None)]),
        "v6": (" ", [("ipv6", None), ("address", None), (v6 + "/64", "ip")]),
        "v4-mask": ("", [("network", None), (v4, "ip"), ("0.0.0.255", None), ("area", None), ("0", None)]),
        "word": ("", [("hostname", None), ("kitten-rtr%d" % r.randint(1, 9), "word")]),
        "as": ("", [("router", None), ("bgp", None), ("65001", "as")]),
        "pwd+v4": ("", [("tacacs-server", None), ("host", None), (v4, "ip"), ("key", None), (sec, "pwd")]),
        "word+as": (" ", [("neighbor", None), ("ZURNET-peers", "word"), ("remote-as", None), ("4200000001", "as")]),
        "v4+as": ("  ", [("neighbor", None), (v4, "ip"), ("remote-as", None), ("65001", "as"), ("description", None), ("transit", None)]),
        "pwd-looks-like-v4": ("", [("snmp-server", None), ("community", None), ("10.20.30.40", "pwd|ip")]),
        "word-in-pwd-line": ("", [("username", None), ("kitten", "word"), ("password", None), (sec, "pwd")]),
        "v6+v4": (" ", [("tunnel", None), (v6, "ip"), ("destination", None), (v4, "ip")]),
        "crowded": ("", [("kitten-gw", "word"), (v4, "ip"), ("12", "as"), (v6, "ip"), ("x", None), ("password", None), (sec, "pwd")]),
        "scrubline": (" ", [("peer", None), (v4, "ip"), ("kitten-x", "word"), ("65001", "as"), ("key-string", "scrub"), ("7", "scrub"), ("0822455D0A16544541", "scrub")]),
        "nodigit-pwd": ("", [("enable", None), ("password", None), (r.choice(["QwertySecretValue", "AnotherSecretXq", "ThirdSecretZw"]), "pwd")]),
        "pwd-fixed-quoted": ("", [("snmp-server", None), ("community", None), (r.choice(['"FixedCommStrXq"', "'FixedCommStrXq'", '"FixedCommStrXq";', "[FixedCommStrXq]"]), "pwd"), ("RO", None)]),
        "v6-tail": (" ", [("tunnel", None), ("destination", None), (r.choice(["64:ff9b::198.51.100.9", "::ffff:203.0.113.77", "2001:db8:aaaa::172.31.200.14"]), "ip")]),
        "pwd-reserved-caps": ("", [("enable", None), ("password", None), (r.choice(["CHANGEME", "changeme"]), "resv")]),
        "keystring-scrub": (" ", [("key-string", "scrub"), ("7", "scrub"), (FIXED_T7, "scrub")]),
        "standby-keystring": ("", [("standby", None), ("1", None), ("authentication", None), ("md5", None), ("key-string", None), ("7", None), (FIXED_T7, "pwd"), ("timeout", None), ("30", None)]),
        "v6-with-word": (" ", [("peer", None), (r.choice(["2001:db8:42::cafe:1", "2001:db8::cafe", "cafe:1::2"]), "ip|word")]),
        "resv-word": (r.choice(["", " "]), [("no", None), (r.choice(["ip", "ipv6", "ipaddr"]), None), (r.choice(["address", "ipaddr", "address-family"]), None)]),
        "key-quoted-twice": ("", [("key", None), ('"%s"' % sec.replace('"', "x"), "pwd"), ("comment", None), ('"lab', None), ('link"', None), ("primary", None)]),
        "doubled-enclosers": (r.choice(["", " "]), [("description", None), ('""', None), ("{{", None), ("name", None), ("}}", None), ("[[x]]", None), (r.choice(["'';", '"";', ";;", "}},"]), None)]),
        "edge-unicode-space": (r.choice(["\x0c", "\xa0 ", "\u3000", " \x0b", "\u2003"]), [("description", None), ("uplink-to-core", None)]),
        "v4-mask-zeros": (" ", [("netmask", None), (v4, "ip"), (r.choice(["255.255.255.000", "000.000.000.255", "255.255.000.000"]), None)]),
    }
    return table[kind]


def render(kind, r, eol):
    lead, toks = kind_tokens(kind, r)
    seps = [r.choice([" ", " ", "  ", " \t"]) for _ in toks]
    body = lead + "".join(t + (seps[i] if i < len(toks) - 1 else "") for i, (t, _) in enumerate(toks))
    if kind == "edge-unicode-space":
        body += r.choice(["\xa0", "\x0c", " \u3000", "\x0b "])        # white space of other kinds at the END of the line
    elif toks:
        body += r.choice(["", "", " ", "\t"])
    return body + eol, toks


RESERVED = ["CHANGEME", "MyResvWord"]
from netconan.default_reserved_words import default_reserved_words as _DRW
BUILTIN_RESERVED = {w.lower() for w in _DRW}


def make_fa(feats, salt, undo=False):
    return AF.FileAnonymizer(anon_pwd="pwd" in feats, anon_ip=("ip" in feats and not undo), salt=salt, reserved_words=list(RESERVED),
                             sensitive_words=list(WORDS) if "word" in feats else None, undo_ip_anon=("ip" in feats and undo),
                             as_numbers=list(asns_for(salt)) if "as" in feats else None)


class Logs(logging.Handler):
    def __init__(self):
        super().__init__(level=logging.ERROR)
        self.n = []

    def emit(self, rec):
        self.n.append(rec.getMessage()[:200])


def run_io(fa, text):
    h = Logs()
    logging.getLogger().addHandler(h)
    try:
        buf = io.StringIO()
        fa.anonymize_io(io.StringIO(text, newline=""), buf)
        return buf.getvalue(), h.n
    finally:
        logging.getLogger().removeHandler(h)


def split_keep(text):
    """Lines with their terminators (LF-terminated; a last line may have none)."""
    out = text.split("\n")
    res = [x + "\n" for x in out[:-1]]
    if out[-1] != "":
        res.append(out[-1])
    return res


def gen(ck, module, cfgtext, what):
    out = os.path.join(tlc.subdir("gen"), "%s_%d.ndjson" % (module, os.getpid()))
    if os.path.exists(out):
        os.remove(out)
    r = tlc.require_ok(tlc.run(module, "g.cfg", workers=16, env={"OUT_FILE": out}, extra={"g.cfg": cfgtext}, timeout=3000), module)
    ck.states += r.distinct
    ck.transitions += r.generated
    ck.models.append({"module": module, "cfg": cfgtext.splitlines()[0], "what": what, **r.summary()})
    res = [json.loads(x) for x in sorted(set(open(out).read().splitlines()))]
    os.remove(out)
    return res


def pipe_cases(ck, tier):
    ml = 3 if tier == "thorough" else 2
    return gen(ck, "PipeGen", "CONSTANTS MaxLines = %d\nSPECIFICATION Spec\nINVARIANT ChainEqualsMulti\nINVARIANT Conserved\nINVARIANT Emit\nCHECK_DEADLOCK FALSE\n" % ml,
               "texts of <= %d line kinds x 16 feature sets x 3 terminators; design theorems ChainEqualsMulti (C15) and Conserved (C12) on the abstract pipeline" % ml)


def has_listed_as_run(tok, salt="TESTSALT"):
    return any(run in asns_for(salt) for run in re.findall(r"[0-9]+", tok))


def sens_positions(toks, feats):
    """Token positions a stage of the feature set may rewrite: the generator's ground truth, plus any token that
    contains a maximal digit run equal to a listed AS number (C11) or a listed word (C10)."""
    out = []
    for i, (t, f) in enumerate(toks):
        if f and any(x in feats for x in f.split("|")):
            out.append(i + 1)
        elif f == "scrub" and "pwd" in feats:
            out.append(i + 1)
        elif f == "resv" and "pwd" in feats and t not in RESERVED:
            out.append(i + 1)
        elif "as" in feats and has_listed_as_run(t):
            out.append(i + 1)
        elif "word" in feats and any(w in t.lower() for w in WORDS) and t.lower() not in BUILTIN_RESERVED:
            out.append(i + 1)               # (a token that IS a reserved word is exempt from the word stage: it must be kept)
    return out


EOLS = {"lf": "\n", "crlf": "\r\n", "nofinal": "\n"}


def concretize_text(case, r):
    eol = EOLS[case["eol"]]
    lines, toks = [], []
    kinds = list(case["kinds"])
    while case["eol"] == "nofinal" and kinds and kinds[-1] == "blank":
        kinds = kinds[:-1]            # an empty last line without terminator is no line at all
    case = dict(case, kinds=kinds)
    seen = {}
    for i, k in enumerate(case["kinds"]):
        last = i == len(case["kinds"]) - 1
        term = "" if (last and case["eol"] == "nofinal") else eol
        if k in seen:
            # the same line text again (identical bytes up to the terminator): results must not be cached across lines
            body, tk = seen[k]
            ln = body + term
        else:
            ln, tk = render(k, r, term)
            seen[k] = (ln[: len(ln) - len(term)] if term else ln, tk)
        lines.append(ln)
        toks.append(tk)
    return lines, toks


# ---------------------------------------------------------------------------
def run_c12(ck, tier):
    thorough = tier == "thorough"
    cases = pipe_cases(ck, tier)
    r = rng("C12")
    if len(cases) > (30000 if thorough else 3500):
        cases = r.sample(cases, 30000 if thorough else 3500)
    traces, meta = [], []
    for ci, case in enumerate(cases):
        feats = case["features"]
        rr = rng("C12", "case", ci)
        lines, toks = concretize_text(case, rr)
        text = "".join(lines)
        ev = [{"ev": "cfg", "collapse": ("pwd" in feats or "word" in feats), "clauses": ["Structure", "Samepermuted", "Samesplit", "Samefileentry"]}]
        info = [None]
        try:
            out, errs = run_io(make_fa(feats, "TESTSALT"), text)
        except Exception as e:
            ev.append({"ev": "exc", "what": "%s: %s" % (type(e).__name__, e)})
            info.append(("text", repr(text)))
            traces.append(ev)
            meta.append({"case": case, "info": info})
            continue
        outs = split_keep(out)
        ev.append({"ev": "text", "nin": len(lines), "nout": len(outs)})
        info.append(("text", "%r -> %r" % (text, out)))
        if len(outs) == len(lines):
            for ln, o, tk in zip(lines, outs, toks):
                if "pwd" in feats and any(f == "scrub" for _, f in tk):
                    continue          # don't-care: scrub-mode syntaxes replace the rest of the line by a notice
                ev.append({"ev": "line", "in": cps(ln), "out": cps(o), "sens": sens_positions(tk, feats)})
                info.append(("line", "%r -> %r" % (ln, o)))
            # the same text through the file entry point (terminators must survive there too)
            if ci % 6 == 0:
                try:
                    base = tlc.subdir("c12files")
                    pin, pout = os.path.join(base, "in_%d.cfg" % ci), os.path.join(base, "out_%d.cfg" % ci)
                    # every other file starts with a byte order mark: it is part of the first line's first token and must come out again
                    bom = ci % 12 == 0
                    ftext, fexp = text, out
                    if bom:
                        ftext = "\ufeff" + text
                        fexp = run_io(make_fa(feats, "TESTSALT"), ftext)[0]
                    with open(pin, "w", encoding="utf-8", newline="") as fh:
                        fh.write(ftext)
                    AF.anonymize_files(pin, pout, "pwd" in feats, "ip" in feats, salt="TESTSALT", sensitive_words=list(WORDS) if "word" in feats else None, reserved_words=list(RESERVED),
                                       as_numbers=list(asns_for("TESTSALT")) if "as" in feats else None)
                    fo = open(pout, encoding="utf-8", newline="").read() if os.path.isfile(pout) else "<no output file>"
                    ev.append({"ev": "same", "what": "fileentry", "a": fexp, "b": fo})
                    info.append(("fileentry", "stream %r vs file entry point %r%s" % (fexp, fo, " (input starts with U+FEFF)" if bom else "")))
                    if bom and not fexp.startswith("\ufeff"):
                        ev.append({"ev": "same", "what": "fileentry", "a": "\ufeff", "b": fexp[:1]})
                        info.append(("fileentry", "byte order mark at the start of the first line lost by the stream API: %r" % fexp[:40]))
                except Exception as e:
                    ev.append({"ev": "exc", "what": "anonymize_files: %r" % (e,)})
                    info.append(("fileentry", "EXC"))
            # line locality: each line alone through a fresh anonymizer (no secrets: numbering depends on history)
            fixed_only = all(k in ("keystring-scrub", "standby-keystring", "blank", "spaces", "plain", "plain-tabs", "v4", "v6", "v4-mask", "as", "word") for k in case["kinds"])
            if ("pwd" not in feats or fixed_only) and len(lines) > 1:
                try:
                    split = "".join(run_io(make_fa(feats, "TESTSALT"), ln)[0] for ln in lines)
                    ev.append({"ev": "same", "what": "split", "a": out, "b": split})
                    info.append(("split", "%r vs %r" % (out, split)))
                    rev = list(reversed(lines))
                    if case["eol"] != "nofinal":
                        o2 = split_keep(run_io(make_fa(feats, "TESTSALT"), "".join(rev))[0])
                        ev.append({"ev": "same", "what": "permuted", "a": "".join(outs), "b": "".join(reversed(o2))})
                        info.append(("permuted", "%r vs reversed %r" % (out, o2)))
                except Exception as e:
                    ev.append({"ev": "exc", "what": "split/permute: %r" % (e,)})
                    info.append(("split", "EXC"))
        traces.append(ev)
        meta.append({"case": case, "info": info})
        ck.count(("c12", json.dumps(case, sort_keys=True)))
    return traces, meta


def chain_stagewise(feats, salt, text, undo=False):
    """The single-feature anonymizers applied one after another, line by line, in the fixed order."""
    lines = split_keep(text)
    regexes = SIR.generate_default_sensitive_item_regexes() if "pwd" in feats else None
    lookup = {}
    a6 = ipa.IpV6Anonymizer(salt, preserve_suffix=None) if "ip" in feats else None
    a4 = ipa.IpAnonymizer(salt, None, None, preserve_suffix=None) if "ip" in feats else None
    from netconan.default_reserved_words import default_reserved_words
    resv = set(default_reserved_words) | set(RESERVED)
    wa = SIR.SensitiveWordAnonymizer(list(WORDS), salt, resv) if "word" in feats else None
    aa = SIR.AsNumberAnonymizer(list(asns_for(salt)), salt) if "as" in feats else None
    outs = list(lines)
    if regexes is not None:
        outs = [SIR.replace_matching_item(regexes, x, lookup, salt, resv) for x in outs]
    if a6 is not None:
        outs = [ipa.anonymize_ip_addr(a6, x, undo) for x in outs]
    if a4 is not None:
        outs = [ipa.anonymize_ip_addr(a4, x, undo) for x in outs]
    if wa is not None:
        outs = [wa.anonymize(x) for x in outs]
    if aa is not None:
        outs = [SIR.anonymize_as_numbers(aa, x) for x in outs]
    return "".join(outs)


def chain_fileanonymizers(feats, salt, text, undo=False):
    out = text
    for f in ("pwd", "ip", "word", "as"):
        if f in feats:
            out = run_io(make_fa([f], salt, undo), out)[0]
    return out


def run_c15(ck, tier):
    thorough = tier == "thorough"
    cases = pipe_cases(ck, tier)
    r = rng("C15")
    cases = [c for c in cases if len(c["features"]) >= 1]
    if len(cases) > (20000 if thorough else 3000):
        cases = r.sample(cases, 20000 if thorough else 3000)
    traces, meta = [], []
    salts = ["TESTSALT", "", "zé"]
    for ci, case in enumerate(cases):
        feats = case["features"]
        rr = rng("C15", "case", ci)
        lines, _ = concretize_text(case, rr)
        text = "".join(lines)
        salt = salts[ci % 3]
        ev = [{"ev": "cfg", "collapse": True, "clauses": ["Samestagewise", "Samefileanonymizers", "Sameundo"]}]
        info = [None]
        try:
            multi = run_io(make_fa(feats, salt), text)[0]
            ev.append({"ev": "same", "what": "stagewise", "a": multi, "b": chain_stagewise(feats, salt, text)})
            info.append(("stagewise", repr(text)))
            ev.append({"ev": "same", "what": "fileanonymizers", "a": multi, "b": chain_fileanonymizers(feats, salt, text)})
            info.append(("fileanonymizers", repr(text)))
            if "ip" in feats and ci % 3 == 0:
                for src in (multi, text):          # undo of anonymized output, and of text that was never anonymized
                    mu = run_io(make_fa(feats, salt, undo=True), src)[0]
                    ev.append({"ev": "same", "what": "undo", "a": mu, "b": chain_stagewise(feats, salt, src, undo=True)})
                    info.append(("undo", repr(src)))
        except Exception as e:
            ev.append({"ev": "exc", "what": "%s: %s" % (type(e).__name__, e)})
            info.append(("exception", repr(text)))
        traces.append(ev)
        meta.append({"case": case, "info": info, "salt": salt})
        ck.count(("c15", json.dumps(case, sort_keys=True)))
    t2, m2 = cli_chains(ck, tier)
    return traces + t2, meta + m2


_CLI_DRIVER = r"""
import json, sys, logging
from netconan.netconan import main
jobs = json.load(open(sys.argv[1]))
for argv in jobs:
    try:
        main(argv)
    except SystemExit as e:
        print("EXIT", e.code, argv, file=sys.stderr)
    except Exception as e:
        print("EXC", type(e).__name__, e, argv, file=sys.stderr)
"""


def cli_chains(ck, tier):
    """The same law at the command line: one run with several feature options = single-feature runs one after another
    (same salt, same reserved words on every run), for every subset of {-p, -a, -w, -n} - with and without -r."""
    import itertools
    import subprocess
    import sys as _sys
    base = tlc.subdir("c15cli")
    text = ("hostname kitten-lab\ndescription corp-zurnet uplink kitten-lab2\nhostname kitten-core1\n enable password CHANGEME\nenable password MyResvWord extra\nusername zurnet password 7 0822455D0A16544541\n"
            "snmp-server community MyResvWord RO\nsnmp-server community S3cr3tCommXq RW\n ip address 11.22.33.44 255.255.255.0\n no ip address\n"
            "router bgp 65001\n neighbor 198.51.100.7 remote-as 4200000001\n neighbor 2001:db8:42::cafe:1 remote-as 12\n key-string 7 0822455D0A16544541\nend\n")
    with open(os.path.join(base, "in.cfg"), "w") as fh:
        fh.write(text)
    traces, meta = [], []
    for ri, ropts in enumerate((["-r", "CHANGEME,MyResvWord,kitten-lab,corp-zurnet"], [])):
        salt = ["cli-salt", "Qz"][ri]
        flag = {"pwd": ["-p"], "ip": ["-a"], "word": ["-w", ",".join(WORDS)], "as": ["-n", ",".join(asns_for(salt))]}
        jobs, plan = [], []
        for n in range(1, 5):
            for sub in itertools.combinations(("pwd", "ip", "word", "as"), n):
                tag = "+".join(sub)
                mo = os.path.join(base, "m_%d_%s.cfg" % (ri, tag))
                jobs.append(["-s", salt, "-i", os.path.join(base, "in.cfg"), "-o", mo] + ropts + [x for f in sub for x in flag[f]])
                src = os.path.join(base, "in.cfg")
                for f in sub:
                    co = os.path.join(base, "c_%d_%s_%s.cfg" % (ri, tag, f))
                    jobs.append(["-s", salt, "-i", src, "-o", co] + ropts + flag[f])
                    src = co
                plan.append((sub, mo, src))
        # directory input with an undecodable file that is met BEFORE the good files (top level before sub-directory):
        # the files after the failure still get every enabled stage
        dplan = []
        if ri == 0:
            din = os.path.join(base, "din")
            os.makedirs(os.path.join(din, "z"), exist_ok=True)
            with open(os.path.join(din, "bad.bin"), "wb") as fh:
                fh.write(b"hostname x\n\xff\xfe\x00\xff\n")
            for gi in (1, 2):
                with open(os.path.join(din, "z", "good%d.cfg" % gi), "w") as fh:
                    fh.write(text.replace("65001", "6500%d" % gi if gi == 2 else "65001"))
            for sub in (("pwd", "as"), ("ip", "as"), ("word", "as"), ("pwd", "ip", "word", "as")):
                tag = "+".join(sub)
                mo = os.path.join(base, "dm_%s" % tag)
                jobs.append(["-s", salt, "-i", din, "-o", mo] + ropts + [x for f in sub for x in flag[f]])
                src = din
                for f in sub:
                    co = os.path.join(base, "dc_%s_%s" % (tag, f))
                    jobs.append(["-s", salt, "-i", src, "-o", co] + ropts + flag[f])
                    src = co
                dplan.append((sub, mo, src))
        jf = os.path.join(base, "jobs%d.json" % ri)
        json.dump(jobs, open(jf, "w"))
        p = subprocess.run([_sys.executable, "-c", _CLI_DRIVER, jf], env=dict(os.environ, PYTHONPATH=common.REPO, PYTHONHASHSEED="0"),
                           stdout=subprocess.PIPE, stderr=subprocess.PIPE, text=True)
        bad = [l for l in p.stderr.splitlines() if l.startswith(("EXIT", "EXC"))]
        for sub, mo, co in plan:
            ev = [{"ev": "cfg", "collapse": True, "clauses": ["Samecli"]}]
            info = [None]
            if bad or not (os.path.isfile(mo) and os.path.isfile(co)):
                ev.append({"ev": "exc", "what": "command line run failed: %s" % (bad[:1] or [mo])})
                info.append(("exception", "cli %s" % "+".join(sub)))
            else:
                ev.append({"ev": "same", "what": "cli", "a": open(mo).read(), "b": open(co).read()})
                info.append(("cli", "options %s %s" % ("+".join(sub), " ".join(ropts))))
            traces.append(ev)
            meta.append({"case": {"features": list(sub), "eol": "lf", "kinds": ["cli"], "reserved_option": bool(ropts)}, "info": info, "salt": salt})
            ck.count(("c15cli", ri, sub))
        for sub, mo, co in dplan:
            ev = [{"ev": "cfg", "collapse": True, "clauses": ["Samecli"]}]
            info = [None]
            for gi in (1, 2):
                pm, pc = os.path.join(mo, "z", "good%d.cfg" % gi), os.path.join(co, "z", "good%d.cfg" % gi)
                if not (os.path.isfile(pm) and os.path.isfile(pc)):
                    ev.append({"ev": "exc", "what": "directory run with a failing file: no output for good%d.cfg (%s)" % (gi, "+".join(sub))})
                    info.append(("exception", "cli directory %s" % "+".join(sub)))
                else:
                    ev.append({"ev": "same", "what": "cli", "a": open(pm).read(), "b": open(pc).read()})
                    info.append(("cli", "directory with a failing file first, options %s, file good%d.cfg" % ("+".join(sub), gi)))
            traces.append(ev)
            meta.append({"case": {"features": list(sub), "eol": "lf", "kinds": ["cli-directory-with-failing-file"], "reserved_option": True}, "info": info, "salt": salt})
            ck.count(("c15clidir", sub))
    return traces, meta


# ---------------------------------------------------------------------------
ADV = {
    "bs_n": "a\\nb", "bs_1": "x\\1y", "bs_g": "\\g<prefix>", "bs_d": "\\d+", "bs_end": "abc\\", "bs_b": "\\bword\\b", "paren": "(", "star": "*a*", "class_open": "[a-",
    "plusq": "+?", "dollar": "$", "caret": "^x", "dotstar": ".*", "brace1": "{1", "pipe": "a|b",
    "md5_salt9": "$1$123456789$abcdefghijklmnopqrstuv", "md5_salt0": "$1$$abcdefghijklmnopqrstuv", "md5_nohash": "$1$salt$", "md5_salt10": "$1$1234567890$abcdefghijklmnopqrstuv", "md5_only": "$1$", "md5_emptysalt": "$1$$$abc", "md5_emptysalt2": "$1$$ab$cdefgh", "md5_dollars": "$1$$$$",
    "j9_short": "$9$ab", "j9_foreign": "$9$abc_def!", "j9_valid": G.j9_encode("hunter2", "Q"), "j9_trunc": G.j9_encode("hunter2", "i")[:-1], "j9_magic": "$9$", "j9_underscore": "$9$ab_cdefgh", "j9_nonascii": "$9$eZkv\u00e9X7dbs4JG",
    "sha_longsalt": "$6$" + "a" * 20 + "$" + "b" * 86, "sha_rounds_big": "$6$rounds=999999999999$saltsalt$" + "c" * 86,
    "sha_bare": "$6$", "sha_rounds": "$6$rounds=1$x$y",
    "fe80_pct": "fe80:%x", "fe80_1_pct": "fe80::1:%x", "v6_tail3": "::ffff:1.2.3", "colons3": ":::", "dc2": "1::2::3",
    "brk_1": "[", "brk_10": "[" * 10, "brk_2000": "[" * 2000, "quote_10": '"' * 10, "nest_1500": "{" * 1500 + "x" + "}" * 1500,
    "empty": "", "uni": "é中文", "ctrl0": "a\x00b", "ctrl1f": "a\x1fb", "ls2028": "a b", "nbsp": "a b", "long5000": "Z" * 5000,
    "d1": "$1", "dx": "$x", "d6": "$6", "d9": "$9", "d_only": "$", "one": "a", "two": "ab", "d1d": "$1$", "dd": "$$",
    "turkic_i": "K\u0130TTEN-gw k\u0131tten \u0130tten", "long_s": "zurnet-ca\u017fe \u017fecret",
    "plainword": "description", "num7": "7", "type7": "02050D480809", "hexval": "ABCDEF12", "v4addr": "10.1.2.3", "v6addr": "2001:db8::1", "asnum": "65001", "word": "kitten",
}
FRAMES = {
    "none": "{}", "password": " password {}", "key": "key {}", "community": "snmp-server community {} RO", "enable-secret-5": "enable secret 5 {}",
    "username": "username {} password 7 {}", "encrypted-password": 'set system root-authentication encrypted-password "{}"', "set-community": " set community {} additive",
    "key-quoted": 'key "{}";', "psk-xml": "<pre_shared_key>{}</pre_shared_key>",
    "ppp-hostname": "ppp chap {} hostname Router{}", "tacacs-host-key": "tacacs-server host {} key S3cr3tKeyXq", "snmp-user-auth": "snmp-server user {} grp v3 auth md5 AuthPassXq1",
    "syscon-address": "syscon address {} SysConPw9x", "juniper-snmp-community": "set snmp view {} community CommStr1ngZ",
}
SALTS = {"empty": "", "hash": "#salt", "inalpha": "Qsalt", "nonascii": "é中"}


def adv_line(c):
    f = FRAMES[c["frame"]]
    vals = [ADV[s] for s in c["slots"]]
    n = f.count("{}")
    if n >= 2:
        a = vals[0]
        b = vals[1] if len(vals) > 1 else vals[0]
        return f.format(a, b)
    return f.format(" ".join(vals))


def run_c14(ck, tier):
    thorough = tier == "thorough"
    cases = gen(ck, "AdvGen", "CONSTANTS MaxSlots = %d Level = %d\nSPECIFICATION Spec\nINVARIANT Emit\nCHECK_DEADLOCK FALSE\n" % ((2, 2) if thorough else (1, 2)),
                "adversarial fillings (<= %d slots) of keyword frames x salt classes x feature sets" % (2 if thorough else 1))
    r = rng("C14")
    if thorough and len(cases) > 60000:
        cases = r.sample(cases, 60000)
    if not thorough:
        # quick: every case of the core vocabulary, a seed-dependent half of the rest (thorough runs all of them)
        core = {"bs_n", "bs_1", "bs_g", "bs_d", "bs_end", "paren", "star", "md5_salt9", "md5_salt0", "md5_nohash", "j9_short", "j9_foreign", "j9_valid", "md5_emptysalt",
                "md5_emptysalt2", "md5_dollars", "j9_underscore", "j9_nonascii", "sha_longsalt", "sha_rounds_big", "fe80_pct", "fe80_1_pct", "brk_2000", "quote_10", "empty",
                "uni", "plainword", "num7", "d1", "dx", "d6", "d_only", "two", "turkic_i"}
        cases = [c for c in cases if all(x in core for x in c["slots"]) or r.random() < 0.5]
        ck.notes["quick_sampled_cases"] = len(cases)
    traces, meta = [], []
    fas = {}
    for ci, c in enumerate(cases):
        feats = [x for x in c["feats"] if x != "undo"]
        undo = "undo" in c["feats"]
        salt = SALTS[c["salt"]]
        line = adv_line(c)
        ev = [{"ev": "cfg", "collapse": True, "clauses": ["Structure"]}]
        info = [None]
        try:
            fa = make_fa(feats, salt, undo)
            out, errs = run_io(fa, line + "\n")
            for m in errs:
                ev.append({"ev": "exc", "what": "ERROR logged: " + m})
                info.append(("error-log", line[:120]))
            ev.append({"ev": "text", "nin": 1, "nout": len(split_keep(out))})
            info.append(("linecount", "%r -> %r" % (line[:160], out[:160])))
        except Exception as e:
            ev.append({"ev": "exc", "what": "%s: %s" % (type(e).__name__, str(e)[:200])})
            info.append(("exception:" + type(e).__name__, line[:160]))
        traces.append(ev)
        meta.append({"case": c, "info": info})
        ck.count(("c14", json.dumps(c, sort_keys=True)))
    # every recognised line form (the SecretForms table: form x alternatives x format class x wrap x lead), one
    # FileAnonymizer per salt class: none of them may fail, whatever alternative of the syntax is used
    import c_secrets
    import secretgen as SG
    from netconan.default_reserved_words import default_reserved_words as _drw
    als = c_secrets.gen_abstract_lines(ck, "all" if thorough else "pairwise")
    als = c_secrets.stratified(rng("C14", "forms"), als, 3 if thorough else 1)
    ck.notes["secret_form_lines"] = len(als)
    for k in range(0, len(als), 40):
        ev = [{"ev": "cfg", "collapse": True, "clauses": ["Structure"]}]
        info = [None]
        salt_name = sorted(SALTS)[(k // 40) % len(SALTS)]
        try:
            fa = make_fa(["pwd"] if (k // 40) % 2 else ["pwd", "ip", "word", "as"], SALTS[salt_name])
        except Exception as e:
            ev.append({"ev": "exc", "what": "constructor %s: %s" % (type(e).__name__, e)})
            info.append(("exception:" + type(e).__name__, "constructor"))
            fa = None
        for ai, al in enumerate(als[k:k + 40]):
            conc = SG.concretize(al, rng("C14", "fill", k + ai), rng("C14", "sec", k + ai), set(_drw))
            if fa is None:
                break
            try:
                out, errs = run_io(fa, conc["line"] + "\n")
                for m in errs:
                    ev.append({"ev": "exc", "what": "ERROR logged: " + m})
                    info.append(("error-log", conc["line"][:160]))
                ev.append({"ev": "text", "nin": 1, "nout": len(split_keep(out))})
                info.append(("linecount", "%r -> %r" % (conc["line"][:160], out[:160])))
            except Exception as e:
                ev.append({"ev": "exc", "what": "%s: %s" % (type(e).__name__, str(e)[:200])})
                info.append(("exception:" + type(e).__name__, conc["line"][:160]))
        traces.append(ev)
        meta.append({"case": {"frame": "form:" + als[k]["form"], "slots": ["secret-forms"], "salt": salt_name, "feats": ["pwd"]}, "info": info})
        ck.count(("c14forms", k))
    # legal but unusual OPTION values (lists that also name IPv6 networks, AS numbers written with a blank or a leading
    # zero, words with regex metacharacters): once the anonymizer was constructed, no line makes it fail
    opt_lines = ["interface Gi0/1", " ip address 192.0.2.7 255.255.255.0", " ip address 10.1.2.3 255.0.0.0", " ipv6 address 2001:db8::7/64", "router bgp 65002",
                 " neighbor 198.51.100.9 remote-as 65010", " neighbor 11.12.13.14 remote-as 65001", "as-path 65001 65002 065010 0 65003", "hostname a.b-x*y(z[w",
                 "enable secret S3cretXq", "snmp-server community CommStr RO", "ip route 0.0.0.0 0.0.0.0 192.0.2.1", "ntp server 224.0.1.1", "end"]
    variants = [
        ("networks-with-ipv6", dict(anon_ip=True, preserve_networks=["2001:db8::/32", "192.0.2.0/24"])),
        ("networks-ipv6-last", dict(anon_ip=True, preserve_networks=["10.1.0.0/16", "fe80::/10"])),
        ("prefixes-with-ipv6", dict(anon_ip=True, preserve_prefixes=["2001:db8::/32", "10.0.0.0/8"])),
        ("undo-networks-with-ipv6", dict(undo_ip_anon=True, preserve_networks=["2001:db8::/32", "192.0.2.0/24"])),
        ("as-blank-and-leading-zero", dict(as_numbers=["65001", " 65002", "065010", "0"])),
        ("as-and-everything", dict(anon_pwd=True, anon_ip=True, as_numbers=["65001", "65002 ", "0065003"], sensitive_words=["a.b", "x*", "(", "[w", "é"], reserved_words=["CommStr"])),
    ]
    for vname, kw in variants:
        ev = [{"ev": "cfg", "collapse": True, "clauses": ["Structure"]}]
        info = [None]
        base_kw = dict(anon_pwd=False, anon_ip=False, salt="opts")
        base_kw.update(kw)
        try:
            fa = AF.FileAnonymizer(**base_kw)
        except Exception as e:
            fa = None
            ck.notes.setdefault("option_values_refused_by_the_constructor", []).append("%s: %s" % (vname, type(e).__name__))
        if fa is not None:
            for ln in opt_lines:
                try:
                    out, errs = run_io(fa, ln + "\n")
                    for m in errs:
                        ev.append({"ev": "exc", "what": "ERROR logged: " + m})
                        info.append(("error-log", ln))
                    ev.append({"ev": "text", "nin": 1, "nout": len(split_keep(out))})
                    info.append(("linecount", "%r -> %r" % (ln, out)))
                except Exception as e:
                    ev.append({"ev": "exc", "what": "%s: %s" % (type(e).__name__, str(e)[:200])})
                    info.append(("exception:" + type(e).__name__, ln))
        traces.append(ev)
        meta.append({"case": {"frame": "options:" + vname, "slots": ["option-values"], "salt": "opts", "feats": sorted(k for k in kw)}, "info": info})
        ck.count(("c14opts", vname))
    # a long run through ONE FileAnonymizer (thousands of distinct addresses of both families): no point of the
    # history may make a later line fail
    rl = rng("C14", "longrun")
    nl = 9000 if thorough else 3500
    text = "".join("neighbor %s via %s\n" % (ipa.ipaddress.IPv6Address(rl.getrandbits(128)), ipa.ipaddress.IPv4Address(rl.getrandbits(32))) for _ in range(nl))
    ev = [{"ev": "cfg", "collapse": True, "clauses": ["Structure"]}]
    info = [None]
    try:
        out, errs = run_io(make_fa(["ip"], "longrun"), text)
        for m in errs:
            ev.append({"ev": "exc", "what": "ERROR logged: " + m})
            info.append(("error-log", "long run"))
        ev.append({"ev": "text", "nin": nl, "nout": len(split_keep(out))})
        info.append(("linecount", "long run of %d address lines" % nl))
    except Exception as e:
        ev.append({"ev": "exc", "what": "%s: %s" % (type(e).__name__, str(e)[:200])})
        info.append(("exception:" + type(e).__name__, "long run of %d address lines" % nl))
    traces.append(ev)
    meta.append({"case": {"frame": "long-run", "slots": ["addresses"], "salt": "longrun", "feats": ["ip"]}, "info": info})
    # through the file entry point: an exception only shows as an ERROR record and a truncated / missing file
    base = tlc.subdir("c14files")
    sub = r.sample(cases, min(len(cases), 1500 if thorough else 300))
    for k in range(0, len(sub), 50):
        chunk = sub[k:k + 50]
        ind, outd = os.path.join(base, "in%d" % k), os.path.join(base, "out%d" % k)
        os.makedirs(ind)
        for j, c in enumerate(chunk):
            with open(os.path.join(ind, "f%02d.cfg" % j), "w", encoding="utf-8", newline="") as fh:
                fh.write("hostname ok\n" + adv_line(c) + "\nend\n")
        c0 = chunk[0]
        feats = [x for x in c0["feats"] if x != "undo"]
        h = Logs()
        logging.getLogger().addHandler(h)
        ev = [{"ev": "cfg", "collapse": True, "clauses": ["Structure"]}]
        info = [None]
        try:
            AF.anonymize_files(ind, outd, "pwd" in feats, "ip" in feats and "undo" not in c0["feats"], salt=SALTS[c0["salt"]],
                               sensitive_words=list(WORDS) if "word" in feats else None, undo_ip_anon="undo" in c0["feats"],
                               as_numbers=list(asns_for(SALTS[c0["salt"]])) if "as" in feats else None)
        except Exception as e:
            ev.append({"ev": "exc", "what": "anonymize_files raised %s: %s" % (type(e).__name__, str(e)[:200])})
            info.append(("exception:" + type(e).__name__, "anonymize_files"))
        finally:
            logging.getLogger().removeHandler(h)
        for m in h.n:
            ev.append({"ev": "exc", "what": "ERROR logged: " + m})
            info.append(("error-log", m[:160]))
        for j, c in enumerate(chunk):
            p = os.path.join(outd, "f%02d.cfg" % j)
            n = len(split_keep(open(p, encoding="utf-8", newline="").read())) if os.path.isfile(p) else -1
            ev.append({"ev": "text", "nin": 3, "nout": n})
            info.append(("file-linecount", adv_line(c)[:160]))
        traces.append(ev)
        meta.append({"case": {"files": len(chunk), "feats": c0["feats"], "salt": c0["salt"]}, "info": info, "chunk": chunk})
    return traces, meta


def adv_key(c, kind):
    slots = c.get("slots", [])
    cls = sorted({s.split("_")[0] if s.startswith(("bs", "md5", "j9", "brk", "fe80", "nest", "quote")) else s for s in slots})
    return "%s slot=%s frame=%s salt=%s" % (kind, "+".join(cls), c.get("frame"), c.get("salt"))


def run(pid, tier):
    ck = Check(pid, tier, level="exploration" if pid == "C14" else "model_checking")
    ck.assumptions = ["line kinds are concretized with known sensitive positions (ground truth of the generator)",
                      "characters that str.split() treats as white space other than blank/tab (lone CR, NBSP, ...) are a don't-care INSIDE a line; at the line edges they are leading / trailing white space and must be kept (kind edge-unicode-space)",
                      "TLC and the code-point projection are trusted"]
    traces, meta = {"C12": run_c12, "C14": run_c14, "C15": run_c15}[pid](ck, tier)
    validate_traces("Pipeline", "Pipeline.cfg", traces, max_events_per_shard=4000)
    ck.traces += len(traces)
    ck.events += sum(len(t) for t in traces)
    for ti, lst in sorted(common.all_rejections.items()):
        m = meta[ti]
        for k, clause in lst:
            kind, txt = m["info"][k] if k < len(m["info"]) and m["info"][k] else ("?", "?")
            c = m["case"]
            if pid == "C14":
                if "chunk" in m and kind == "file-linecount":
                    c = m["chunk"][k - (len(m["info"]) - len(m["chunk"]))]
                key = adv_key(c, "clause=%s %s" % (clause, kind if kind.startswith("exception") else kind))
            else:
                key = "clause=%s kind=%s features=%s eol=%s" % (clause, kind, "+".join(c.get("features", [])), c.get("eol"))
                if pid == "C12":
                    key = "clause=%s linekind=%s eol=%s" % (clause, "|".join(sorted(set(c.get("kinds", [])))), c.get("eol"))
            ck.violation(key, "%s: %s (case %s)" % (clause, txt[:400], json.dumps(c)[:300]), {"case": c, "event": traces[ti][k], "clause": clause})
    if meta:
        ck.sample({"case": meta[0]["case"], "info": [x for x in meta[0]["info"] if x][:3]})
        ck.sample({"case": meta[len(meta) // 2]["case"], "info": [x for x in meta[len(meta) // 2]["info"] if x][:2]})
    ck.rule = {"C12": "cases = TLC-enumerated <feature set, text of line kinds, terminator>, each concretized with random tokens/spacing; non-trivial = at least one line",
               "C14": "cases = TLC-enumerated <frame, adversarial slot fillings, salt class, feature set>; every case is an adversarial line by construction of the vocabulary",
               "C15": "cases = TLC-enumerated <non-empty feature set, text, terminator> compared multi-feature vs two kinds of chains"}[pid]
    return ck.finish()


if __name__ == "__main__":
    common.main_wrapper(lambda: run(sys.argv[1], sys.argv[2] if len(sys.argv) > 2 else "quick"))
