"""pytest plugin: records the repository's OWN test executions as traces (no change to /repo).

    PYTHONPATH=/verif/harness:<repo> VERIF_RECORD_DIR=<dir> python -m pytest -p verif_recorder tests

Public functions are wrapped at configure time; every call return becomes one
event (ndjson files in VERIF_RECORD_DIR), in the formats of IpTrace.tla,
TextTrace.tla and JuniperTrace.tla.  The harness then lets TLC judge them, so
the properties are evaluated at every step of every existing test - including
the steps whose results the tests themselves never assert.
"""
import io
import ipaddress
import json
import os

_out = {}
_inst = {}        # id(anonymizer) -> config dict
_counter = [0]
ALPHA = "QzF3n6/9CAtpu0O" "B1IREhcSyrleKvMW8LXx" "7N-dVbwsY2g4oaJZGUDj" "iHkq.mPf5T"
IDX = {c: i for i, c in enumerate(ALPHA)}


def _emit(kind, ev):
    d = os.environ.get("VERIF_RECORD_DIR")
    if not d:
        return
    if kind not in _out:
        _out[kind] = open(os.path.join(d, kind + ".ndjson"), "a")
    _out[kind].write(json.dumps(ev) + "\n")


def bits_of(n, w):
    return [(n >> (w - 1 - i)) & 1 for i in range(w)]


def _cidr_bits(c):
    n = ipaddress.ip_network(c)
    return bits_of(int(n.network_address), n.max_prefixlen)[: n.prefixlen]


def pytest_configure(config):
    try:
        _install()
    except Exception as e:          # a refactoring moved a seam: record nothing rather than break the suite
        _emit("recorder_error", {"error": repr(e)})


def _install():
    from netconan import ip_anonymization as ipa
    from netconan.utils import juniper_secrets as J

    def wrap_init(cls, fam):
        orig = cls.__init__

        def __init__(self, salt, *a, **kw):
            pins = nets = None
            if fam == 4:
                pp = a[0] if len(a) > 0 else kw.get("preserve_prefixes")
                pa = a[1] if len(a) > 1 else kw.get("preserve_addresses")
                pins = list(pp) if pp is not None else list(cls.DEFAULT_PRESERVED_PREFIXES)
                nets = list(pa) if pa is not None else []
            orig(self, salt, *a, **kw)
            _counter[0] += 1
            custom = kw.get("salter") is not None
            _inst[id(self)] = {"n": _counter[0], "fam": fam, "salt": salt, "ps": self.preserve_suffix, "pins": pins or [], "nets": nets or [], "custom_salter": custom}
        cls.__init__ = __init__

    wrap_init(ipa.IpAnonymizer, 4)
    wrap_init(ipa.IpV6Anonymizer, 6)

    def cfg_of(self):
        c = _inst.get(id(self))
        if c is None:
            return None
        return c

    base = ipa._BaseIpAnonymizer
    o_anon, o_deanon, o_dump = base.anonymize, base.deanonymize, base.dump_to_file

    def anonymize(self, ip_int):
        y = o_anon(self, ip_int)
        c = cfg_of(self)
        if c:
            _emit("ip", {"cfg": c, "ev": "anon", "x": str(ip_int), "y": str(y)})
        return y

    def deanonymize(self, ip_int):
        x = o_deanon(self, ip_int)
        c = cfg_of(self)
        if c:
            _emit("ip", {"cfg": c, "ev": "deanon", "x": str(x), "y": str(ip_int)})
        return x

    def dump_to_file(self, file_out):
        buf = io.StringIO()
        o_dump(self, buf)
        file_out.write(buf.getvalue())
        c = cfg_of(self)
        if c:
            _emit("ip", {"cfg": c, "ev": "dump", "text": buf.getvalue()})

    base.anonymize, base.deanonymize, base.dump_to_file = anonymize, deanonymize, dump_to_file

    o_line = ipa.anonymize_ip_addr

    def anonymize_ip_addr(anonymizer, line, undo_ip_anon=False):
        out = o_line(anonymizer, line, undo_ip_anon)
        c = cfg_of(anonymizer)
        if c:
            _emit("line", {"cfg": c, "undo": bool(undo_ip_anon), "in": line, "out": out})
        return out

    ipa.anonymize_ip_addr = anonymize_ip_addr
    import netconan.anonymize_files as AF
    AF.anonymize_ip_addr = anonymize_ip_addr

    o_enc, o_dec = J.juniper_nonrandom_encrypt, J.juniper_decrypt

    def enc_text(s):
        magic = s.startswith("$9$")
        body = s[3:] if magic else s
        return magic, [IDX.get(ch, 99) for ch in body]

    def juniper_nonrandom_encrypt(plain, salt=None):
        c = o_enc(plain, salt)
        magic, body = enc_text(c)
        _emit("juniper", {"ev": "enc", "plain": [ord(ch) for ch in plain], "magic": magic, "body": body})
        return c

    def juniper_decrypt(crypt):
        magic, body = enc_text(crypt or "")
        try:
            p = o_dec(crypt)
        except ValueError:
            _emit("juniper", {"ev": "dec", "magic": magic, "body": body, "outcome": "ValueError", "plain": []})
            raise
        except Exception as e:
            _emit("juniper", {"ev": "dec", "magic": magic, "body": body, "outcome": "other:" + type(e).__name__, "plain": []})
            raise
        _emit("juniper", {"ev": "dec", "magic": magic, "body": body, "outcome": "ok", "plain": [ord(ch) for ch in p]})
        return p

    # sensitive-word anonymizer: configuration per instance, one event per anonymize(line)
    import netconan.sensitive_item_removal as SIR0
    W = SIR0.SensitiveWordAnonymizer
    w_init, w_anon = W.__init__, W.anonymize

    def winit(self, sensitive_words, salt, reserved_words=None, *a, **kw):
        if reserved_words is None:
            w_init(self, sensitive_words, salt, *a, **kw)
            from netconan.default_reserved_words import default_reserved_words as rw
        else:
            w_init(self, sensitive_words, salt, reserved_words, *a, **kw)
            rw = reserved_words
        _counter[0] += 1
        _inst[id(self)] = {"n": _counter[0], "words": sorted(sensitive_words), "salt": salt, "reserved": sorted(rw) if len(rw) < 200 else None}

    def wanon(self, line):
        out = w_anon(self, line)
        c = _inst.get(id(self))
        if c:
            _emit("words", {"cfg": c, "in": line, "out": out})
        return out

    W.__init__, W.anonymize = winit, wanon

    J.juniper_nonrandom_encrypt, J.juniper_decrypt = juniper_nonrandom_encrypt, juniper_decrypt
    import netconan.sensitive_item_removal as SIR
    SIR.juniper_secrets.juniper_nonrandom_encrypt = juniper_nonrandom_encrypt
    SIR.juniper_secrets.juniper_decrypt = juniper_decrypt


def pytest_sessionfinish(session, exitstatus):
    for f in _out.values():
        f.close()
