"""C16: files map one-to-one; inputs untouched; failures isolated; entry points agree.

1. TLC model-checks Files.tla (R: the property clause by clause as theorems of
   the requirement machine, including Isolation as a two-copy product) and
   FilesImpl.tla (M: the walk / per-file try-except machine; M => R for every
   scenario and every directory-listing order).
2. TLC (FilesGen.tla) enumerates EVERY scenario of the scope - tree of <= N
   files over 4 directories (root, name with space, non-ASCII nested 3 deep,
   dot-directory) x 5 name classes (plain, plain, space, non-ASCII, leading
   dot) x every fault assignment {ok, undecodable, output path is a directory}
   x pre-existing output {absent, empty, stale files} x empty sub-directories,
   plus the single-file scenarios - with M's predicted outcome per file.  The
   set TLC emits is compared with an independent enumeration (machinery guard).
3. Every scenario is materialised in a scratch sandbox and run through the
   real entry points (anonymize_files on the directory, in-process main(),
   the installed CLI in a subprocess for a sample; single files through
   anonymize_files, main(), FileAnonymizer.anonymize_file), together with its
   baseline (same tree without the faults).  The reference content of a file
   is what FileAnonymizer.anonymize_io (in-memory stream API) returns for it.
4. Each run is projected to events (digests only) and judged by TLC against
   R (FilesTrace.tla).  M's prediction is compared as well: drift, no verdict.
5. Isolation against the tree WITHOUT the failing file (clause
   IsolationVsAbsent, modelled in FilesIso.tla: proved for the eager reader,
   refuted by TLC for a line-by-line reader): hand-built trees whose files
   carry DISTINCT secrets, a 22-34 KB failing file with one undecodable byte
   at offset 0 / inside the first read buffer / at 8191, 8192, 8193 / far
   beyond / last byte, other files listed before and after it; the same entry
   point (anonymize_files, main) is run on the tree with and without the
   failing file(s) and TLC compares the digests of every other file.
6. Relative paths: anonymize_files and main are called with RELATIVE input and
   output paths (cwd = sandbox; forms d, ./d, d/, d/../d) on trees whose
   sub-directory and file names repeat the text of the input path (in/main,
   configs/old_configs, an input name that is a prefix of a sibling); judged
   by the same one-to-one / content / nothing-else-written clauses.
7. Blocked output sub-directory (regular file where a sub-directory of the
   output is needed): a third fault kind of the generated scenarios (M action
   FailOutDirBlocked: every file below it fails on its own and is reported,
   all others are written) plus hand-built trees with several sibling
   sub-directories.  Clause CallRaised: anonymize_files / main must not let a
   per-file error escape (anonymize_file may: its contract is to raise).
8. Names derived from other names: stale output directories hold unrelated
   <output>.tmp/.bak/~/.orig/.new files (must stay byte-identical); input
   trees with X next to X.tmp/.bak/~ in both listing orders; several
   single-file calls into one directory.  Single-file mode also with names
   that start with a dot (nothing is "hidden" when the file is named
   explicitly) and with directories containing spaces.
9. Output directory inside the input directory (FilesNest.tla: proved for
   a walk finished before the first write, refuted by TLC for a walk that
   alternates with the writes): directly below the input (absent / empty /
   holding an old result), below a sub-directory that holds inputs, sorted
   first, with a failing file; the files present at the start yield one
   output each and nothing else is written.
10. Entry points agree under option sets where only one of preserve_suffix_v4
   / preserve_suffix_v6 is given (v4 only 4, 8, 16; v6 only 8, 64; both;
   none) on texts with IPv4 and IPv6 addresses: directory API, single-file
   API and FileAnonymizer.anonymize_file against the stream API.
11. Feature subsets with undo (alone; with passwords, words, AS numbers, all)
   through every entry point including main and the CLI.
"""
import concurrent.futures
import itertools
import json
import os
import subprocess
import sys

import common
import filesworld as W
import tlc
from common import Check, rng, validate_traces

DIRS = [0, 1, 2, 3]
NAMES = ["a", "b", "sp", "uni", "dot"]
FAULTS = ["none", "decode", "outdir", "blocked"]
FEAT_ORDER = ["PAWN", "P", "A"]


def gen_cfg(maxfiles, withenv, withsingle, allorders=False, tail="SPECIFICATION MSpec\nINVARIANT Emit\nCHECK_DEADLOCK FALSE\n"):
    return ('CONSTANTS Dirs = {0, 1, 2, 3}  DotDir = 3  Names = {"a", "b", "sp", "uni", "dot"}\n'
            "          MaxFiles = %d  WithEnv = %s  WithSingle = %s  AllOrders = %s\n%s"
            % (maxfiles, str(withenv).upper(), str(withsingle).upper(), str(allorders).upper(), tail))


R_TAIL = ("SPECIFICATION RSpec\nPROPERTY PickForms\nINVARIANTS TypeOK OneToOne NothingElseWritten InputsUntouched ErrorsNamed Isolation\n"
          "CHECK_DEADLOCK FALSE\n")
M_TAIL = ("SPECIFICATION MSpec\nPROPERTY RSpecP\nINVARIANTS TypeOK OneToOne NothingElseWritten InputsUntouched "
          "ErrorsNamed Isolation MDoneImpliesDone\nCHECK_DEADLOCK FALSE\n")


def r_cfg(maxfiles, withenv):
    return gen_cfg(maxfiles, withenv, True, tail=R_TAIL).replace("  AllOrders = FALSE", "")


# ---------------------------------------------------------------------------
# scenarios
# ---------------------------------------------------------------------------
def scenario_key(s):
    files = tuple(sorted((f["dir"], f["name"], f["fault"]) for f in s["files"]))
    return (s["mode"], s["pre"], bool(s["esub"]), files)


def expected_keys(maxfiles, withenv, withsingle):
    """Independent enumeration of the scenario space of Files.tla."""
    kinds = [(d, n) for d in DIRS for n in NAMES if d != 3 or n == "a"]
    keys = set()
    pres = ["absent", "empty", "stale"] if withenv else ["absent"]
    esubs = [False, True] if withenv else [False]
    for n in range(1, maxfiles + 1):
        for T in itertools.combinations(kinds, n):
            vis = [d != 3 and nm != "dot" for d, nm in T]
            doms = [FAULTS[:2] if not v else FAULTS[:3] if d == 0 else FAULTS for (d, nm), v in zip(T, vis)]
            for fl in itertools.product(*doms):
                # "blocked" is a directory-level fault: same directory and the directory below (2 below 1) share it
                if any(fk == "blocked" and vj and fj != "blocked" and (dj == dk or (dj == 2 and dk == 1))
                       for (dk, _), fk, vk in zip(T, fl, vis) if vk for (dj, _), fj, vj in zip(T, fl, vis)):
                    continue
                files = tuple(sorted((d, nm, f) for (d, nm), f in zip(T, fl)))
                for p in pres:
                    for e in esubs:
                        keys.add(("tree", p, e, files))
    if withsingle:
        for nm in NAMES:              # a leading dot hides nothing in single-file mode
            for f in FAULTS[:3]:
                for p in ("absent", "stale"):
                    for e in (False, True):
                        if e and (p != "absent" or f == "outdir"):
                            continue
                        keys.add(("single", p, e, ((0, nm, f),)))
    return keys


def generate(maxfiles, withenv, withsingle, tag):
    out = os.path.join(tlc.subdir("gen"), "scn_%s_%d.ndjson" % (tag, os.getpid()))
    if os.path.exists(out):
        os.remove(out)
    name = "FilesGen_%s.cfg" % tag
    r = tlc.run("FilesGen", name, workers=8, env={"OUT_FILE": out},
                extra={name: gen_cfg(maxfiles, withenv, withsingle)})
    tlc.require_ok(r, "FilesGen/" + tag)
    lines = open(out, encoding="utf-8").read().splitlines() if os.path.exists(out) else []
    os.remove(out)
    scns = []
    for x in lines:
        try:
            scns.append(json.loads(x))
        except ValueError:
            raise common.MachineryError("FilesGen emitted a broken line: %r" % x[:200])
    got = {}
    for s in scns:
        got[scenario_key(s)] = s
    exp = expected_keys(maxfiles, withenv, withsingle)
    if set(got) != exp or len(scns) != len(exp):
        raise common.MachineryError("FilesGen/%s: TLC emitted %d scenarios (%d distinct), independent enumeration has %d"
                                    % (tag, len(scns), len(got), len(exp)))
    return [got[k] for k in sorted(got)], r


def group_key(s):
    return (s["mode"], s["pre"], bool(s["esub"]), tuple(sorted((f["dir"], f["name"]) for f in s["files"])))


def build_groups(scns, cli_every, r, families=("lf",), nl_every=7, main_every=1):
    """Group scenarios that share tree + environment (they share the baseline
    run); assign options / content classes round-robin over the groups."""
    by = {}
    for s in scns:
        by.setdefault(group_key(s), []).append(s)
    groups = []
    sid = 0
    for gi, gk in enumerate(sorted(by)):
        mode, pre, esub, kinds = gk
        fams = ["lf"] + (["nl"] if (gi % nl_every == 0 and "nl" in families) else [])
        for fam in fams:
            g = {"gid": len(groups), "mode": mode, "pre": pre, "esub": esub,
                 "files": [{"dir": d, "name": n} for d, n in kinds],
                 "feat": FEAT_ORDER[gi % 3], "variant": (gi // 3) % 5, "family": fam, "scenarios": []}
            for s in sorted(by[gk], key=scenario_key):
                sid += 1
                if mode == "tree":
                    nofault = all(f["fault"] == "none" for f in s["files"])
                    entries = ["dir"] + (["main"] if (nofault or main_every == 1 or r.randrange(main_every) == 0) else [])
                    if cli_every and r.randrange(cli_every) == 0:
                        entries.append("cli")
                else:
                    entries = ["file", "main1"] + ([] if esub else ["fafile"])
                    if cli_every and r.randrange(max(1, cli_every // 8)) == 0:
                        entries.append("cli1")
                g["scenarios"].append({
                    "sid": sid, "entries": entries,
                    "faults": {W.kind_id(f): f["fault"] for f in s["files"]},
                    "pred": {W.kind_id(f): [f["pred"], f["prep"]] for f in s["files"]}})
            groups.append(g)
    return groups


# ---------------------------------------------------------------------------
# workers (separate processes: clean import of the tree under test, UTF-8 mode)
# ---------------------------------------------------------------------------
def worker_main(jobfile, outfile, fsroot):
    import logging
    logging.getLogger().setLevel(logging.WARNING)
    groups = json.load(open(jobfile, encoding="utf-8"))
    with open(outfile, "w", encoding="utf-8") as fh:
        for g in groups:
            fn = {"iso": W.run_iso, "rel": W.run_rel, "blk": W.run_blocked, "sib": W.run_siblings,
                  "seq": W.run_sequence, "nest": W.run_nested, "hb": W.run_hostbits}.get(g.get("kind"), W.run_group)
            res = fn(g, fsroot, common.REPO)
            fh.write(json.dumps(res) + "\n")


def run_groups(groups, nproc=common.NPROC):
    d = tlc.subdir("fs")
    shards = [[] for _ in range(nproc)]
    # balance by number of executions
    loads = [0] * nproc
    cost = lambda g: (8 * len(g["entries"]) if g.get("kind") == "iso" else 2 * len(g["entries"]) if g.get("kind") in ("rel", "blk", "sib", "seq", "nest", "hb") else
                      sum(len(s["entries"]) + 8 * sum(e.startswith("cli") for e in s["entries"]) for s in g["scenarios"]) + 2)
    for g in sorted(groups, key=cost, reverse=True):
        j = loads.index(min(loads))
        shards[j].append(g)
        loads[j] += cost(g)
    procs = []
    env = dict(os.environ, PYTHONPATH=common.REPO + os.pathsep + common.HERE, NETCONAN_REPO=common.REPO,
               PYTHONUTF8="1", PYTHONDONTWRITEBYTECODE="1")
    for j, sh in enumerate(shards):
        if not sh:
            continue
        jf = os.path.join(d, "job_%d_%d.json" % (os.getpid(), j))
        of = os.path.join(d, "res_%d_%d.ndjson" % (os.getpid(), j))
        json.dump(sh, open(jf, "w", encoding="utf-8"))
        p = subprocess.Popen([sys.executable, os.path.abspath(__file__), "--worker", jf, of, d], env=env,
                             stdout=subprocess.PIPE, stderr=subprocess.STDOUT)
        procs.append((p, jf, of))
    out = []
    for p, jf, of in procs:
        txt = p.communicate()[0].decode("utf-8", "replace")
        if p.returncode != 0:
            raise common.MachineryError("C16 worker failed (rc=%s):\n%s" % (p.returncode, txt[-3000:]))
        for line in open(of, encoding="utf-8"):
            out.append(json.loads(line))
        os.remove(jf)
        os.remove(of)
    return out


# ---------------------------------------------------------------------------
# verdicts
# ---------------------------------------------------------------------------
def newline_class(classes):
    cs = set(classes.values())
    return "cr" if cs == {"cr"} else "crlf"


def violation_key(clause, g, res, ev):
    """Stable key from the failing input class: clause, entry point, mode, and for a
    file event its fault, name class, nesting class and content class."""
    entry = res["entry"]
    cls = res["info"]["classes"].get(ev.get("id"))
    if clause == "EntryPointsDifferNewline":
        return "entrypoints-differ newline=%s" % ("cr" if cls == "cr" else "crlf")
    key = "clause=%s entry=%s mode=%s" % (clause, entry, g["mode"])
    if ev.get("ev") == "file":
        kid = ev["id"]
        if g["family"] == "nl" and clause in ("ContentDiffers", "NotIsolated"):
            return key + " newline=%s fault=%s (differs beyond newline translation)" % (cls, ev["fault"])
        d = int(kid[1])
        key += " fault=%s name=%s where=%s class=%s" % (ev["fault"], kid.split("-", 1)[1],
                                                      {0: "root", 1: "subdir", 2: "nested", 3: "dotdir"}[d], cls)
    return key


def run(pid, tier):
    ck = Check(pid, tier)
    thorough = tier == "thorough"
    r = rng(pid, tier)
    ck.assumptions = [
        "the reference content of a file is the output of FileAnonymizer.anonymize_io on its text with a fresh anonymizer; generated contents "
        "introduce the same secrets in the same order in every file, so this is independent of the other files and of the processing order "
        "(probed on the real code for every tree: one shared anonymizer over all files in reverse order gives the same bytes)",
        "process encoding is UTF-8 (workers run with PYTHONUTF8=1); 'undecodable' = bytes that are not UTF-8",
        "'reported' = a log record of level >= WARNING, a line of CLI console output, or the text of an escaping exception containing the "
        "file's (unique) base name; in single-file mode any such report",
        "TLC, the digest projection (sha1 of bytes) and the sandbox builder are trusted; the scenario set emitted by TLC is cross-checked "
        "against an independent enumeration",
    ]
    # ---- 1. models (in the background; they only need CPU) ------------------
    model_jobs = [
        ("Files", "FilesR.cfg", r_cfg(2, thorough),
         "R theorems OneToOne/NothingElseWritten/InputsUntouched/ErrorsNamed/Isolation(two-copy) over every scenario with <= 2 files, "
         "4 dirs x 5 names, 3 faults, %s, single-file scenarios; every outcome R allows (7 slot contents x reported)" %
         ("3 pre-existing-output states x empty sub-directory" if thorough else "environment fixed")),
        ("FilesImpl", "FilesM.cfg", gen_cfg(2, thorough, True, allorders=True, tail=M_TAIL),
         "M => R (PROPERTY RSpec) + R theorems on M, <= 2 files, every listing order, %s" % ("with environment" if thorough else "environment fixed")),
    ]
    if thorough:
        model_jobs.append(("FilesImpl", "FilesM3.cfg", gen_cfg(3, False, False, allorders=True, tail=M_TAIL),
                           "M => R + R theorems on M, <= 3 files, every listing order (6 per tree), environment fixed"))
    model_jobs.append(("FilesIso", "FilesIso.cfg", open(os.path.join(tlc.SPEC, "FilesIso.cfg")).read(),
                       "IsolationVsAbsent holds when a failing file is decoded before any line is handled (N=4 files, any failing position)"))
    model_jobs.append(("FilesNest", "FilesNest.cfg", open(os.path.join(tlc.SPEC, "FilesNest.cfg")).read(),
                       "output directory inside the input directory (directly below / below a sub-directory; absent / empty / holding an old result): "
                       "the files present at the start yield one output each and nothing else is written when the tree is listed before the first write"))
    nlazy = tlc.run("FilesNest", "FilesNestLazy.cfg", workers=2)
    if nlazy.invariant_violated != "NothingElseWritten":
        raise common.MachineryError("FilesNest: the lazily walking machine must refute NothingElseWritten (vacuity guard):\n" + nlazy.out[-1500:])
    lazy = tlc.run("FilesIso", "FilesIsoLazy.cfg", workers=2)
    if lazy.invariant_violated != "IsolationVsAbsent":
        raise common.MachineryError("FilesIso: the lazy-reading machine must refute IsolationVsAbsent (vacuity guard):\n" + lazy.out[-1500:])
    ck.notes["model_prediction"] = "FilesIso with Lazy=TRUE: TLC refutes IsolationVsAbsent (lines handled before the failure shift later files' pseudonym numbers)"
    pool = concurrent.futures.ThreadPoolExecutor(max_workers=3)
    futs = [(m, c, what, pool.submit(tlc.run, m, c, workers=6, extra={c: text}, timeout=3000)) for m, c, text, what in model_jobs]

    import time
    tm = {}
    t0 = time.time()
    # ---- 2. scenarios from TLC ----------------------------------------------
    gpool = concurrent.futures.ThreadPoolExecutor(max_workers=3)
    g3 = gpool.submit(generate, 3, False, False, "f3")
    g4 = gpool.submit(generate, 4, False, False, "f4") if thorough else None
    scns, res = generate(2, True, True, "f2env")
    ck.models.append({"module": "FilesGen", "cfg": "MaxFiles=2 WithEnv WithSingle", "what": "scenario generation (every scenario once, with M's prediction)", **res.summary()})
    ck.states += res.distinct
    ck.transitions += res.generated
    gen_counts = {"<=2 files x env x single": len(scns)}
    s3, res3 = g3.result()
    s3 = [s for s in s3 if len(s["files"]) == 3]
    tagn = "3 files"
    ck.models.append({"module": "FilesGen", "cfg": "MaxFiles=3", "what": "scenario generation: every tree of 3 files x every fault assignment", **res3.summary()})
    ck.states += res3.distinct
    ck.transitions += res3.generated
    gen_counts[tagn + " (generated)"] = len(s3)
    envs = [(p, e) for p in ("absent", "empty", "stale") for e in (False, True)]
    gks = sorted({group_key(s) for s in s3})
    if not thorough:
        # quick: every tree keeps its no-fault scenario and a seeded sample of its fault assignments, one environment per tree
        keep = [s for s in s3 if all(f["fault"] == "none" for f in s["files"]) or r.random() < 0.06]
        envof = {gk: [envs[i % 6]] for i, gk in enumerate(gks)}
    else:
        # thorough: every fault assignment of every tree, under two of the six environments (all six occur over the trees)
        keep = s3
        envof = {gk: [envs[i % 6], envs[(i + 3 + (i // 6) % 2) % 6]] for i, gk in enumerate(gks)}
    s3 = []
    for s in keep:
        for p, e in envof[group_key(s)]:
            s3.append(dict(s, pre=p, esub=e))
    gen_counts[tagn + " (run)"] = len(s3)
    s4 = []
    if thorough:
        s4all, res4 = g4.result()
        s4all = [s for s in s4all if len(s["files"]) == 4]
        ck.models.append({"module": "FilesGen", "cfg": "MaxFiles=4", "what": "scenario generation, 4 files, env assigned round-robin", **res4.summary()})
        ck.states += res4.distinct
        ck.transitions += res4.generated
        gen_counts["4 files (generated)"] = len(s4all)
        # a seeded sample of trees, each with ALL its fault assignments
        gks = sorted({group_key(s) for s in s4all})
        chosen = set(r.sample(gks, min(len(gks), 150)))
        envs = [(p, e) for p in ("absent", "empty", "stale") for e in (False, True)]
        envof = {gk: envs[i % 6] for i, gk in enumerate(sorted(chosen))}
        for s in s4all:
            gk = group_key(s)
            if gk in chosen:
                s["pre"], s["esub"] = envof[gk]
                s4.append(s)
        gen_counts["4 files (run: %d trees x all fault assignments)" % len(chosen)] = len(s4)
    allscn = scns + s3 + s4
    groups = build_groups(allscn, cli_every=(60 if thorough else 120), r=r, families=("lf", "nl"),
                          main_every=(2 if thorough else 4))
    by_gid = {g["gid"]: g for g in groups}
    scn_of = {s["sid"]: (g, s) for g in groups for s in g["scenarios"]}

    tm["generate_s"] = round(time.time() - t0, 1)
    # distinct-secret family for IsolationVsAbsent (hand-built trees; the clause is modelled in FilesIso.tla)
    if thorough:
        combos = [(sh, oc, ft) for sh in sorted(W.ISO_SHAPES) for oc in W.ISO_OFFSETS for ft in ("P", "PAWN")]
    else:
        combos = [(sh, oc, "P") for sh in ("S1", "S2") for oc in ("offset0", "first-buffer", "at-8192", "beyond-20000")] + \
                 [("S3", "beyond-20000", "P"), ("S4", "at-8193", "PAWN")]
    iso_jobs = [{"kind": "iso", "gid": len(groups) + i, "shape": sh, "offset_class": oc, "feat": ft, "entries": ["dir", "main"]}
                for i, (sh, oc, ft) in enumerate(combos)]
    iso_by_gid = {j["gid"]: j for j in iso_jobs}
    # relative-path family: names inside the tree repeat the text of the (relative) input path
    forms = list(W.REL_FORMS)
    if thorough:
        rcombos = [(tr, fm, ft) for tr in sorted(W.REL_TREES) for fm in forms for ft in ("PAWN", "P")]
    else:
        # every tree with the bare name (the form whose text re-occurs in the tree) and one decorated form
        rcombos = [(tr, fm, "PAWN") for i, tr in enumerate(sorted(W.REL_TREES)) for fm in ("plain", forms[1 + i % 3])] + [("T-in", "absolute", "P")]
    rel_jobs = [{"kind": "rel", "gid": len(groups) + len(iso_jobs) + i, "tree": tr, "form": fm, "feat": ft, "entries": ["dir", "main"]}
                for i, (tr, fm, ft) in enumerate(rcombos)]
    # blocked output sub-directories, hand-built trees with several sibling sub-directories
    bcombos = [(tr, ft, st) for tr in sorted(W.BLOCK_TREES) for ft in (("PAWN", "P") if thorough else ("PAWN",)) for st in ((False, True) if thorough else (tr == "B-two",))]
    rel_jobs += [{"kind": "blk", "gid": len(groups) + len(iso_jobs) + len(rel_jobs) + i, "tree": tr, "form": "stale-output" if st else "bare-output",
                  "feat": ft, "stale": st, "entries": ["dir", "main"]} for i, (tr, ft, st) in enumerate(bcombos)]
    # sibling inputs X / X.tmp ... and repeated single-file calls into one directory
    sib_shapes = sorted(W.SIB_JOBS) if thorough else ["tmp-root", "tmp-bad", "bak-root", "tilde-sub"]
    hand = [("sib", sh, ["dir", "main"], ft) for sh in sib_shapes for ft in (("PAWN", "P") if thorough else ("PAWN",))]
    hand += [("seq", sh, ["file", "main1", "fafile"], "PAWN") for sh in sorted(W.SEQ_JOBS)]
    # output directory inside the input directory (FilesNest.tla)
    nest_shapes = sorted(W.NEST_JOBS)
    hand += [("nest", sh, ["dir", "main"], ft) for sh in nest_shapes for ft in (("PAWN", "P") if thorough else ("PAWN",))]
    # entry points agree under option sets with only one of the two host-bit options
    hand += [("hb", ft, ["dir", "file", "fafile"], ft) for ft in W.HB_SETS]
    # feature subsets with UNDO (alone and with each other feature) through every entry point, the command line included
    hand += [("hb", ft, ["dir", "main", "file", "main1", "fafile"] + (["cli"] if ft == "U" else []), ft) for ft in W.UNDO_SETS]
    nrel = len(rel_jobs)
    rel_jobs += [{"kind": kd, "gid": len(groups) + len(iso_jobs) + nrel + i, "tree": sh, "shape": sh, "form": "-", "feat": ft, "entries": en}
                 for i, (kd, sh, en, ft) in enumerate(hand)]
    rel_by_gid = {j["gid"]: j for j in rel_jobs}
    # ---- 3. real runs ---------------------------------------------------------
    t0 = time.time()
    outs = run_groups(groups + iso_jobs + rel_jobs)
    tm["real_runs_s"] = round(time.time() - t0, 1)
    traces, meta = [], []
    probes_bad = 0
    nontrivial_files = 0
    entries_seen = {}
    iso_stats = {"executions": 0, "unstable_listing_order(skipped)": 0, "other_files_before_failing": 0,
                 "other_files_after_failing": 0, "other_files_between_failing": 0, "other_files_rewritten": 0}
    rel_execs = 0
    for go in outs:
        if go.get("kind") in ("rel", "blk", "sib", "seq", "nest", "hb"):
            job = rel_by_gid[go["gid"]]
            for res_ in go["results"]:
                rel_execs += 1
                traces.append(res_["events"])
                meta.append(("rel", job, res_, None))
                ck.count((job["kind"], job["tree"], job["form"], job["feat"], res_["entry"]))
            continue
        if go.get("kind") == "iso":
            job = iso_by_gid[go["gid"]]
            for res_ in go["results"]:
                iso_stats["executions"] += 2
                if not res_["stable_order"]:
                    iso_stats["unstable_listing_order(skipped)"] += 1
                    continue
                for p in res_["position"].values():
                    iso_stats["other_files_%s_failing" % p] += 1
                iso_stats["other_files_rewritten"] += res_["info"]["files_rewritten"]
                for which in ("absent", "with"):
                    traces.append(res_["events"][which])
                    meta.append(("iso", job, res_, which))
                ck.count(("iso", job["shape"], job["offset_class"], job["feat"], res_["entry"]))
            continue
        g = by_gid[go["gid"]]
        if not go["probe_ok"]:
            probes_bad += 1
        nontrivial_files += go["nontrivial_files"]
        for res_ in go["results"]:
            _, sc = scn_of[res_["sid"]]
            traces.append(res_["events"])
            meta.append((g, sc, res_, False))
            entries_seen[res_["entry"]] = entries_seen.get(res_["entry"], 0) + 1
            if g["family"] == "nl":
                # diagnostic twin: the newline difference tolerated, every other clause still judged
                tev = [dict(e, tol=True) if e["ev"] == "file" else e for e in res_["events"]]
                traces.append(tev)
                meta.append((g, sc, res_, True))
            if res_["drift"] and len(ck.drift) < 8:
                ck.drift.append({"entry": res_["entry"], "tree": g["files"], "drift": res_["drift"][:2]})
            faults = tuple(sorted(v for v in sc["faults"].values()))
            ck.count((g["mode"], g["pre"], g["esub"], tuple((f["dir"], f["name"]) for f in g["files"]), faults,
                      tuple(sorted(sc["faults"].items())), res_["entry"], g["family"]))
    if probes_bad:
        ck.drift.append({"assumption": "order-independent reference", "groups_where_shared_anonymizer_differs": probes_bad})

    # ---- 4. TLC judges ------------------------------------------------------
    t0 = time.time()
    rejected, states = validate_traces("FilesTrace", "FilesTrace.cfg", traces, max_events_per_shard=12000)
    tm["trace_validation_s"] = round(time.time() - t0, 1)
    ck.traces += len(traces)
    ck.events += sum(len(t) for t in traces)
    ck.notes["trace_states"] = states
    for ti, (k, clause) in sorted(rejected.items()):
        if meta[ti][0] == "rel":
            _, job, res_, _ = meta[ti]
            ev = traces[ti][k]
            fam = {"rel": "relative-paths", "blk": "blocked-output-subdirectory", "sib": "sibling-inputs-with-derived-names",
                   "seq": "repeated-single-file-calls", "nest": "output-inside-input", "hb": "option-sets"}[job["kind"]]
            key = "clause=%s entry=%s family=%s tree=%s form=%s" % (clause, res_["entry"], fam, job["tree"], job["form"])
            if ev.get("ev") == "file":
                key += " fault=%s" % ev["fault"]
            tree = (W.REL_TREES[job["tree"]]["files"] if job["kind"] == "rel" else W.BLOCK_TREES[job["tree"]] if job["kind"] == "blk"
                    else W.SIB_JOBS[job["tree"]] if job["kind"] == "sib" else W.SEQ_JOBS[job["tree"]] if job["kind"] == "seq"
                    else (W.NEST_TREE, W.NEST_JOBS[job["tree"]]) if job["kind"] == "nest" else "two files with IPv4 and IPv6 addresses")
            what = ("%s: entry=%s input=%r output=%r options=%s tree=%s -> %s %s; files that appeared/changed elsewhere: %s; raised=%s reports=%s" %
                    (clause, res_["entry"], res_["info"].get("input_arg", "<sandbox>/in"), res_["info"].get("output_arg", "<sandbox>/out"), job["feat"], tree,
                     ev.get("id", "end-of-run"), {x: ev[x] for x in ("fault", "pre", "out", "ref", "reported", "raised") if x in ev}, res_["info"]["others_changed"],
                     res_["info"]["raised"], res_["info"]["reports"][:2]))
            ck.violation(key, what, {"rel_job": job, "entry": res_["entry"], "events": traces[ti], "failing_event": k, "clause": clause})
            continue
        if meta[ti][0] == "iso":
            _, job, res_, which = meta[ti]
            ev = traces[ti][k]
            nfail = sum(1 for _, _, role in W.ISO_SHAPES[job["shape"]] if role == "fail")
            if clause == "IsolationVsAbsent":
                key = "clause=IsolationVsAbsent entry=%s badbyte=%s position=%s failing-files=%d" % (
                    res_["entry"], job["offset_class"], res_["position"].get(ev.get("id")), nfail)
            else:
                key = "clause=%s entry=%s family=distinct-secrets run=%s badbyte=%s" % (clause, res_["entry"], which, job["offset_class"])
            what = ("%s: entry=%s tree=%s options=%s listing order=%s; failing file(s): %s bytes, first undecodable byte at %s; %s %s; reports=%s raised=%s" %
                    (clause, res_["entry"], job["shape"], job["feat"], res_["order"], res_["info"]["sizes"], res_["info"]["bad_byte_offsets"],
                     ev.get("id", "end-of-run"), {x: ev[x] for x in ("fault", "pre", "out", "absent", "allfailed", "reported") if x in ev},
                     res_["info"]["reports"][:2], res_["info"]["raised"]))
            ck.violation(key, what, {"iso_job": job, "entry": res_["entry"], "run": which, "events": traces[ti],
                                     "failing_event": k, "clause": clause})
            continue
        g, sc, res_, tol = meta[ti]
        ev = traces[ti][k]
        if tol and (clause == "EntryPointsDifferNewline" or rejected.get(ti - 1, (None, "EntryPointsDifferNewline"))[1] != "EntryPointsDifferNewline"):
            continue        # the strict twin (previous trace) already reports it
        key = violation_key(clause, g, res_, ev)
        if tol:
            key += " (newline difference tolerated)"
        what = ("%s: entry=%s tree=%s pre=%s empty_subdirs=%s options=%s faults=%s -> %s %s; reports=%s raised=%s others_changed=%s" %
                (clause, res_["entry"], [W.kind_id(f) for f in g["files"]], g["pre"], g["esub"], g["feat"],
                 {a: b for a, b in sc["faults"].items() if b != "none"},
                 ev.get("id", "end-of-run"), {x: ev[x] for x in ("fault", "pre", "out", "ref", "base", "reported") if x in ev},
                 res_["info"]["reports"][:2], res_["info"]["raised"], res_["info"]["others_changed"]))
        ck.violation(key, what, {"group": {x: g[x] for x in g if x != "scenarios"}, "scenario": sc,
                                 "entry": res_["entry"], "events": traces[ti], "failing_event": k, "clause": clause,
                                 "classes": res_["info"]["classes"]})

    # ---- models: collect ----------------------------------------------------
    for m, c, what, f in futs:
        rr = tlc.require_ok(f.result(), "%s/%s" % (m, c))
        ck.states += rr.distinct
        ck.transitions += rr.generated
        ck.models.append({"module": m, "cfg": c, "what": what, **rr.summary()})
    pool.shutdown()
    tm["models_s"] = {c: round(f.result().wall, 1) for m, c, what, f in futs}
    ck.notes["phase_wall"] = tm

    ck.notes["scenarios"] = gen_counts
    ck.notes["undo_feature_subsets"] = {"option_sets": W.UNDO_SETS, "entries": ["dir", "main", "file", "main1", "fafile", "cli (U only)"],
                                        "what": "undo (-u / undo_ip_anon) alone and with passwords / words / AS numbers / all of them: one output per input, "
                                                "bytes equal to the stream API's under the same options"}
    ck.notes["host_bit_option_family"] = {"option_sets": W.HB_SETS, "entries": ["dir", "file", "fafile"],
                                          "what": "preserve_suffix_v4 / preserve_suffix_v6 given separately ('-' = not passed); texts with IPv4 and IPv6 "
                                                  "addresses; every entry point must reproduce the stream API's bytes under the same options and salt"}
    ck.notes["output_inside_input_family"] = {"jobs": {k: list(v) for k, v in W.NEST_JOBS.items()}, "tree": W.NEST_TREE,
                                              "what": "anonymize_files / main with the output directory inside the input directory; R (FilesNest.tla): the files "
                                                      "present at the start yield one output each, nothing else is written"}
    ck.notes["derived_name_families"] = {"sibling_input_jobs": sib_shapes, "repeated_call_jobs": sorted(W.SEQ_JOBS),
                                         "what": "inputs X and X.tmp/.bak/~ side by side (pairs kept so that the derived name is listed both before and after its "
                                                 "base; X undecodable in the -bad jobs); 2-3 single-file calls into one directory (incl. dot names, names with spaces); "
                                                 "stale environments of the generated scenarios now also hold <output>.tmp/.bak/~/.orig/.new bystanders"}
    ck.notes["blocked_output_subdirectory_family"] = {"jobs": len(bcombos), "trees": {k: v["blocked"] for k, v in W.BLOCK_TREES.items()},
                                                      "what": "pre-existing output directory with a regular file at the path of one or two output sub-directories "
                                                              "(first / middle / last sibling, deeper level, ancestor); also a third fault kind 'blocked' of the TLC-generated scenarios"}
    ck.notes["relative_path_family"] = {"jobs": len(rel_jobs) - len(bcombos) - len(hand), "executions": rel_execs, "trees": sorted(W.REL_TREES),
                                        "forms": forms, "what": "anonymize_files and main called with relative input/output paths (cwd = sandbox); "
                                        "directory and file names repeat the text of the input path; judged by the ordinary per-file and end clauses"}
    ck.notes["isolation_vs_absent_family"] = dict(iso_stats, jobs=len(iso_jobs),
                                                  what="trees with distinct secrets per file, failing file 22-34 KB with one 0xff byte at the stated offset; "
                                                       "baseline = same tree without the failing file(s); entries dir + main")
    ck.notes["executions_by_entry_point"] = entries_seen
    ck.notes["groups(tree x environment x family)"] = len(groups)
    ck.notes["files_whose_reference_differs_from_input"] = nontrivial_files
    ck.notes["dont_care"] = ["slot of a failed file", "files below a dot-directory", "created directories", "how a failure is reported",
                             "a fault that the implementation manages to process silently (slot must then hold the expected bytes)",
                             "cross-file pseudonym numbering (generator avoids it)"]
    ck.rule = ("case = (tree, fault assignment, environment, content-class variant, entry point) run on the real code and judged by TLC; distinct_nontrivial "
               "counts distinct (mode, pre-existing output, empty-subdir, tree, fault assignment, entry point, newline family); TLC enumerates the "
               "tree x fault (x environment) space completely for the stated sizes, options (3 feature subsets) and content classes "
               "(lf / no final newline / non-ASCII / empty / blank; CRLF / lone CR / mixed in the newline family) are assigned round-robin over trees")
    ck.exhaustive = True if not thorough else True
    ck.notes["exhaustive_scope"] = ("every scenario with <= 2 files x environment + all single-file scenarios" +
                                    (" + every tree x fault assignment with 3 files under 2 of the 6 environments; 4 files: sampled trees x all fault assignments" if thorough
                                     else "; 3 files: all trees, sampled fault assignments"))
    if outs:
        g0 = groups[len(groups) // 2]
        ck.sample({"group": {x: g0[x] for x in g0 if x != "scenarios"}, "scenario": g0["scenarios"][-1]})
        mid = len(traces) // 2
        ck.sample({"entry": meta[mid][2]["entry"], "events": traces[mid][:3]})
    return ck.finish()


def replay(pid, path):
    """Re-run the execution stored in a replay file on the real code and have TLC judge it again."""
    case = json.load(open(path))["case"]
    if "rel_job" in case:
        job = dict(case["rel_job"], entries=[case["entry"]])
        res_ = {"blk": W.run_blocked, "rel": W.run_rel, "sib": W.run_siblings, "seq": W.run_sequence, "nest": W.run_nested, "hb": W.run_hostbits}[job["kind"]](
            job, tlc.subdir("fs"), common.REPO)["results"][0]
        rejected, _ = validate_traces("FilesTrace", "FilesTrace.cfg", [res_["events"]])
        for ti, (k, clause) in sorted(rejected.items()):
            print("REPLAY VIOLATION: clause=%s at %s; elsewhere: %s" % (clause, res_["events"][k].get("id", "end-of-run"), res_["info"]["others_changed"]))
        print("%s replay: 1 trace judged by TLC, %d violations" % (pid, len(rejected)))
        return 1 if rejected else 0
    if "iso_job" in case:
        job = dict(case["iso_job"], entries=[case["entry"]])
        res_ = W.run_iso(job, tlc.subdir("fs"), common.REPO)["results"][0]
        if not res_["stable_order"]:
            print("%s replay: directory listing order of the two runs differs, nothing to compare" % pid)
            return 0
        traces = [res_["events"]["absent"], res_["events"]["with"]]
        rejected, _ = validate_traces("FilesTrace", "FilesTrace.cfg", traces)
        bad = 0
        for ti, (k, clause) in sorted(rejected.items()):
            ev = traces[ti][k]
            print("REPLAY VIOLATION: clause=%s run=%s at %s %s" % (clause, ("absent", "with")[ti], ev.get("id", "end-of-run"),
                                                                 {x: ev[x] for x in ("fault", "out", "absent", "allfailed", "reported") if x in ev}))
            bad += 1
        print("%s replay: %d traces judged by TLC, %d violations" % (pid, len(traces), bad))
        return 1 if bad else 0
    g = dict(case["group"])
    sc = dict(case["scenario"], entries=[case["entry"]])
    g["scenarios"] = [sc]
    go = W.run_group(g, tlc.subdir("fs"), common.REPO)
    res_ = go["results"][0]
    traces = [res_["events"]]
    if g["family"] == "nl":
        traces.append([dict(e, tol=True) if e["ev"] == "file" else e for e in res_["events"]])
    rejected, _ = validate_traces("FilesTrace", "FilesTrace.cfg", traces)
    bad = 0
    for ti, (k, clause) in sorted(rejected.items()):
        if ti == 1 and (clause == "EntryPointsDifferNewline" or rejected.get(0, (None, "EntryPointsDifferNewline"))[1] != "EntryPointsDifferNewline"):
            continue
        ev = traces[ti][k]
        key = violation_key(clause, g, res_, ev) + (" (newline difference tolerated)" if ti == 1 else "")
        known = common.match_known(pid, key, clause)
        print("REPLAY %s: %s at %s %s" % ("known finding" if known else "VIOLATION", key, ev.get("id", "end-of-run"),
                                          {x: ev[x] for x in ("fault", "pre", "out", "ref", "base", "reported") if x in ev}))
        bad += 0 if known else 1
    print("%s replay: %d traces judged by TLC, %d violations" % (pid, len(traces), bad))
    return 1 if bad else 0


if __name__ == "__main__":
    if sys.argv[1:2] == ["--worker"]:
        worker_main(sys.argv[2], sys.argv[3], sys.argv[4])
    elif sys.argv[1:2] == ["--replay"]:
        common.main_wrapper(lambda: replay("C16", sys.argv[2]))
    else:
        common.main_wrapper(lambda: run("C16", sys.argv[1] if len(sys.argv) > 1 else "quick"))
