"""C13: same salt, options and input give byte-identical output, always.

Process.tla is model-checked (Deterministic holds for every history within the
bounds when the three named deviations are off; each deviation alone is
refuted - so the invariant is not vacuous) and emits the histories:
spawn(hash seed) / construct(configuration) / run(anonymizer, input).  Each
history is replayed with REAL interpreter processes (one per spawned process,
PYTHONHASHSEED as in the history), and TLC (ProcessTrace.tla) requires every
<<configuration, input>> to show one and the same output digest everywhere.
"""
import concurrent.futures
import hashlib
import json
import os
import re
import subprocess
import sys

import common
import tlc
from common import Check, rng, validate_traces

WORDS = ["kit", "kitten", "itt", "resv", "kitt", "ten", "xkit"]
CFGS = {
    "full": dict(salt="S1", anon_pwd=True, anon_ip=True, sensitive_words=WORDS, as_numbers=["65001", "12"], reserved_words=None),
    "resvA": dict(salt="S1", anon_pwd=True, anon_ip=False, sensitive_words=["resv", "zurnet"], as_numbers=None, reserved_words=["resva", "MyResvA"]),
    "other": dict(salt="_lab-salt-2024", anon_pwd=True, anon_ip=True, sensitive_words=WORDS, as_numbers=None, reserved_words=["resvb"]),
    "netsX": dict(salt="S1", anon_pwd=False, anon_ip=True, sensitive_words=None, as_numbers=None, reserved_words=None, preserve_networks=["11.22.0.0/16", "12.0.0.0/8"]),
    "emptysalt": dict(salt="", anon_pwd=True, anon_ip=True, sensitive_words=["zurnet", "kit"], as_numbers=["65001"], reserved_words=None),
    "nosalt": dict(salt=None, anon_pwd=True, anon_ip=True, sensitive_words=["zurnet"], as_numbers=["65001"], reserved_words=None),
}
INPUTS = {
    "mixed": "\n".join([
        "hostname kitten-rtr1", "username admin secret sha512 $6$RMxgK5ALGIf.nWEC$tHuKCyfNtJMCY561P52dTzHUmYMmLxb/Mxik.j3vMUs8lMCPocM00/NAS.SN6GCWx7d/vQIgxnClyQLAb7n3x0",
        "enable secret 5 $1$wtHI$0rN7R8PKwC30AsCGA77vy.", "username admin secret 5 $1$$n3tc0n$Qz1Vabcdefghijklmnop", "username old secret 5 $1$ab$Qz1Vabcdefghijklmnopqr", " password 7 122A00190102180D3C2E", "snmp-server community resva RO", "snmp-server community resvb RW",
        "description kitt xkittenx KITTEN mitt resva resvb MyResvA zurnetwork", 'secret "$9$Be4EhyVb2GDkevYo"', "tacacs-server host 10.9.8.7 key S3cretKeyXq",
        "ip address 11.22.33.44 255.255.255.0", "ipv6 address 2001:db8::12/64", "router bgp 65001", " neighbor 12.1.1.1 remote-as 12", "key 918273645", "",
    ]) + "\n",
    "plain": "interface Loopback0\n ip address 192.0.2.1 255.255.255.255\n description kitten\n",
}

_CHILD = r"""
import sys, json, io, hashlib, logging
sys.path.insert(0, %r)
class H(logging.Handler):
    def __init__(self):
        super().__init__(); self.msgs = []
    def emit(self, r):
        self.msgs.append(r.getMessage())
h = H(); logging.getLogger().addHandler(h)
from netconan.anonymize_files import FileAnonymizer
job = json.load(sys.stdin)
cons, out = [], []
for act in job["actions"]:
    try:
        if act["a"] == "discard":
            # an anonymizer that is built, used and thrown away (its memory may be re-used by the next one)
            import gc
            # (same constructor arguments except the salt, several times: the allocation pattern of the next
            #  construction repeats, so object identities are likely to be re-used)
            for rep in range(3):
                tmp = FileAnonymizer(**act["cfg"])
                tmp.anonymize_io(io.StringIO(act["text"]), io.StringIO())
                del tmp
                gc.collect()
            out.append({"a": "discard"})
        elif act["a"] == "construct":
            n = len(h.msgs)
            cons.append((act["cfgid"], FileAnonymizer(**act["cfg"]), [m for m in h.msgs[n:]]))
            fa = cons[-1][1]
            out.append({"a": "construct", "salt": fa.salt, "log": cons[-1][2], "generated": act["cfg"].get("salt") is None})
        else:
            cfgid, fa, _ = cons[act["k"] - 1]
            buf = io.StringIO()
            fa.anonymize_io(io.StringIO(act["text"]), buf)
            out.append({"a": "run", "cfgid": cfgid, "salt": fa.salt, "inp": act["inp"], "out": hashlib.sha256(buf.getvalue().encode()).hexdigest(), "head": buf.getvalue()[:300]})
    except Exception as e:
        out.append({"a": "exc", "what": "%%s: %%s" %% (type(e).__name__, e)})
json.dump(out, sys.stdout)
"""


def run_process(seed, actions):
    env = dict(os.environ, PYTHONHASHSEED={0: "0", 1: "1", 2: "random"}.get(seed, str(seed)))
    p = subprocess.run([sys.executable, "-c", _CHILD % common.REPO], input=json.dumps({"actions": actions}), stdout=subprocess.PIPE,
                       stderr=subprocess.PIPE, text=True, env=env)
    if p.returncode != 0:
        raise common.MachineryError("child interpreter failed: " + p.stderr[-1500:])
    return json.loads(p.stdout)


def replay_history(hist):
    """One trace per history."""
    procs = []           # per process: (seed, actions)
    order = []           # (proc index, action index) in history order for run actions
    for h in hist:
        if h["a"] == "spawn":
            procs.append((h["seed"], []))
        elif h["a"] == "construct":
            procs[h["p"] - 1][1].append({"a": "construct", "cfgid": h["cfg"], "cfg": CFGS[h["cfg"]]})
        elif h["a"] == "discard":
            procs[h["p"] - 1][1].append({"a": "discard", "cfg": dict(CFGS[h["cfg"]], salt=h["salt"]) if "salt" in h else CFGS[h["cfg"]], "text": INPUTS[h["inp"]]})
        else:
            procs[h["p"] - 1][1].append({"a": "run", "k": h["k"], "inp": h["inp"], "text": INPUTS[h["inp"]]})
    ev = [{"ev": "start"}]
    info = [None]
    follow = []
    for pi, (seed, actions) in enumerate(procs):
        if not actions:
            continue
        for res in run_process(seed, actions):
            if res["a"] == "exc":
                ev.append({"ev": "exc", "what": res["what"]})
                info.append(("exception", res["what"]))
            elif res["a"] == "run":
                cfg = res["cfgid"]
                if cfg == "nosalt":
                    cfg = "nosalt:" + str(res["salt"])
                    follow.append((res["salt"], res["inp"]))
                ev.append({"ev": "run", "cfg": cfg, "inp": res["inp"], "out": res["out"], "where": "proc %d seed %s" % (pi + 1, seed)})
                info.append(("run", "%s/%s in process %d (hash seed %s): %s" % (cfg, res["inp"], pi + 1, {2: "random"}.get(seed, seed), res["head"][:120].replace("\n", "|"))))
            elif res["a"] == "construct" and res.get("generated"):
                # no salt was supplied: the generated one must be reported (WARNING or above, any wording)
                if not any(str(res["salt"]) in m for m in res["log"]):
                    ev.append({"ev": "exc", "what": "generated salt %r not reported at WARNING level or above (log: %r)" % (res["salt"], res["log"])})
                    info.append(("salt-report", "missing"))
    # re-running with the reported salt reproduces the output (fresh process, other hash seed)
    for salt, inp in follow[:2]:
        cfg = dict(CFGS["nosalt"], salt=salt)
        for res in run_process(1, [{"a": "construct", "cfgid": "nosalt", "cfg": cfg}, {"a": "run", "k": 1, "inp": inp, "text": INPUTS[inp]}]):
            if res["a"] == "run":
                ev.append({"ev": "run", "cfg": "nosalt:" + salt, "inp": inp, "out": res["out"], "where": "rerun with reported salt"})
                info.append(("run", "rerun with reported salt %r: %s" % (salt, res["head"][:100].replace("\n", "|"))))
            elif res["a"] == "exc":
                ev.append({"ev": "exc", "what": res["what"]})
                info.append(("exception", res["what"]))
    return ev, info


def process_cfg(l, o, r, emit, mp, mc, mr):
    t = lambda b: "TRUE" if b else "FALSE"
    return ("CONSTANTS LeakReserved = %s OrderFromSeed = %s RandomSha = %s MaxProcs = %d MaxCons = %d MaxRuns = %d\nSPECIFICATION Spec\nVIEW view\n"
            "INVARIANT Deterministic\n%sCHECK_DEADLOCK FALSE\n" % (t(l), t(o), t(r), mp, mc, mr, "INVARIANT Emit\n" if emit else ""))


def main_runs(ck):
    """The command line, two interpreter processes with different hash seeds, bytes of the output tree."""
    import c_text
    ev = [{"ev": "start"}]
    info = [None]
    base = tlc.subdir("c13main")
    ind = os.path.join(base, "in")
    files = {"a.cfg": INPUTS["mixed"], "sub/b.cfg": INPUTS["plain"]}
    for i in range(6):      # several files with distinct secrets: pseudonym numbering follows the processing order
        files["dev%d.cfg" % i] = "hostname dev%d\nenable secret S3cretNo%dXq\nsnmp-server community Comm%dStrZ RO\n" % (i, i, i)
    # two listed words of which one contains the other, next to reserved words that contain the shorter one
    files["net.cfg"] = "interface ethernet0\n description netops inet zurnetops ethernet\n ip address 10.1.1.1 255.255.255.0 secondary\n"
    c_text.write_tree(ind, files)
    for i, hs in enumerate(["0", "1", "2", "3", "4", "5", "7", "random"]):
        outd = os.path.join(base, "out%d" % i)
        if i in (1, 4):     # the output tree already exists and holds longer files (an earlier run on another version of the configs)
            c_text.write_tree(outd, {n: "! left over from an earlier run\n" * 200 for n in files})
        # (a salt whose first character is outside the $9$ alphabet: the fallback salt character must not depend on the process)
        rc, err = c_text.run_main(["-a", "-p", "-s", "_S1 salt", "-w", ",".join(WORDS + ["netops", "net"]), "-n", "65001,12", "-i", ind, "-o", outd], hashseed=hs)
        tree = c_text.read_tree(outd) if os.path.isdir(outd) else {}
        if rc != 0:
            ev.append({"ev": "exc", "what": "main rc=%s %s" % (rc, err[-200:])})
            info.append(("exception", "main"))
        digest = hashlib.sha256(json.dumps(sorted(tree.items())).encode()).hexdigest()
        ev.append({"ev": "run", "cfg": "main-full", "inp": "tree", "out": digest, "where": "PYTHONHASHSEED=%s" % hs})
        info.append(("run", "main -a -p -w -n with PYTHONHASHSEED=%s: %s" % (hs, json.dumps(tree)[:200])))
    return ev, info


_MAIN_SEQ = r"""
import sys, json, os, hashlib
sys.path.insert(0, %r)
from netconan.netconan import main
job = json.load(sys.stdin)
res = []
for argv in job:
    try:
        main(argv)
        res.append("ok")
    except BaseException as e:
        res.append("%%s: %%s" %% (type(e).__name__, e))
json.dump(res, sys.stdout)
"""


def main_history(ck):
    """The command-line entry point called several times in ONE process (as a library user or a test-suite does):
    a run must not depend on the runs before it.  Compared with the same run in a fresh process."""
    import c_text
    ev = [{"ev": "start"}]
    info = [None]
    base = tlc.subdir("c13mainhist")
    ind = os.path.join(base, "in")
    c_text.write_tree(ind, {"a.cfg": INPUTS["mixed"] + "ip address 20.30.40.50 255.255.255.0\nip address 77.1.2.3 255.255.255.0\nneighbor 203.0.113.77 remote-as 65001\n"})
    target = ["-a", "-p", "-s", "S1", "-w", ",".join(WORDS), "-i", ind]
    decoys = [["-a", "-s", "S9", "--preserve-addresses", "20.30.0.0/16,77.0.0.0/8,203.0.113.0/24", "-i", ind, "-o", os.path.join(base, "d1")],
              ["-p", "-w", "resv,zurnet", "-r", "resvb,MyResvA", "-s", "S1", "-i", ind, "-o", os.path.join(base, "d2")],
              ["-a", "-s", "S1", "--preserve-prefixes", "20.0.0.0/8", "--preserve-host-bits", "0", "-i", ind, "-o", os.path.join(base, "d3")]]
    runs = [("fresh process", [target + ["-o", os.path.join(base, "t0")]], "t0"),
            ("after three other runs in the same process", decoys + [target + ["-o", os.path.join(base, "t1")]], "t1"),
            ("second identical run in the same process", [target + ["-o", os.path.join(base, "t2a")], target + ["-o", os.path.join(base, "t2")]], "t2")]
    # the same options on OTHER configs first (other secrets, addresses, words): nothing of that run may be carried into the next one
    ind2 = os.path.join(base, "in2")
    c_text.write_tree(ind2, {"o%d.cfg" % i: "hostname other%d\nenable secret 0therS3cret%dXq\nsnmp-server community 0therComm%dZ RO\nip address 20.30.%d.1 255.255.255.0\n" % (i, i, i, i) for i in range(3)})
    runs.append(("after a run with the same options on other configs", [target[:-1] + [ind2, "-o", os.path.join(base, "d4")], target + ["-o", os.path.join(base, "t3")]], "t3"))
    for name, seq, outname in runs:
        p = subprocess.run([sys.executable, "-c", _MAIN_SEQ % common.REPO], input=json.dumps(seq), stdout=subprocess.PIPE, stderr=subprocess.PIPE, text=True,
                           env=dict(os.environ, PYTHONHASHSEED="0"))
        if p.returncode != 0:
            raise common.MachineryError("main history child failed: " + p.stderr[-800:])
        res = json.loads(p.stdout)
        if res[-1] != "ok":
            ev.append({"ev": "exc", "what": "main %s: %s" % (name, res[-1])})
            info.append(("exception", name))
        outd = os.path.join(base, outname)
        tree = c_text.read_tree(outd) if os.path.isdir(outd) else {}
        ev.append({"ev": "run", "cfg": "main-seq", "inp": "tree", "out": hashlib.sha256(json.dumps(sorted(tree.items())).encode()).hexdigest(), "where": name})
        info.append(("run", "main %s: %s" % (name, json.dumps(tree)[-260:])))
    return ev, info


def main_nosalt_fault(ck):
    """No salt on the command line and files that cannot be written in the middle of the run: whatever salt was
    generated must be reported, and re-running with A reported salt reproduces every output file of the run."""
    import re
    import c_text
    ev = [{"ev": "start"}]
    info = [None]
    base = tlc.subdir("c13nosalt")
    ind = os.path.join(base, "in")
    good = ["a1.cfg", "c3.cfg", "e5.cfg", "g7.cfg", "z9.cfg", "sub/k1.cfg"]
    tree = {n: "hostname dev%d\nip address 11.22.33.%d 255.255.255.0\nenable secret S3cretNo%dXq\nneighbor zurnet-%d remote-as 65001\n" % (i, 40 + i, i, i) for i, n in enumerate(good)}
    tree.update({"b2.cfg": "hostname x\n", "f6.cfg": "hostname y\n"})
    c_text.write_tree(ind, tree)
    opts = ["-a", "-p", "-w", "zurnet", "-n", "65001", "-i", ind]

    def run(outd, extra):
        for bad in ("b2.cfg", "f6.cfg"):
            os.makedirs(os.path.join(outd, bad))                  # output path occupied by a directory: these two files fail
        rc, err = c_text.run_main(opts + ["-o", outd] + extra, hashseed="random")
        t = {}
        for n in good:
            q = os.path.join(outd, n)
            t[n] = open(q).read() if os.path.isfile(q) else None
        return hashlib.sha256(json.dumps(sorted(t.items())).encode()).hexdigest(), err, t

    d0, err0, t0 = run(os.path.join(base, "out0"), [])
    ev.append({"ev": "run", "cfg": "main-nosalt-fault", "inp": "tree", "out": d0, "where": "no salt, two failing files"})
    info.append(("run", "no salt: %s" % json.dumps(t0)[:200]))
    if any(v is None for v in t0.values()):
        ev.append({"ev": "exc", "what": "good files missing from the output: %s" % [k for k, v in t0.items() if v is None]})
        info.append(("exception", "missing outputs"))
    # candidates for the reported salt: any alphanumeric run in a WARNING-or-above line of the log, whatever the wording
    cands = []
    for line in err0.splitlines():
        if re.match(r"^(WARNING|ERROR|CRITICAL)", line) and "salt" in line.lower():
            cands += [c for c in re.findall(r"[A-Za-z0-9]{8,}", line) if c not in cands]
    best = None
    for ci, c in enumerate(cands[:4]):
        d1, _, t1 = run(os.path.join(base, "re%d" % ci), ["-s", c])
        if best is None or d1 == d0:
            best = (d1, c, t1)
        if d1 == d0:
            break
    if best is None:
        ev.append({"ev": "exc", "what": "no salt reported at WARNING level or above: %r" % err0[-300:]})
        info.append(("exception", "salt not reported"))
    else:
        ev.append({"ev": "run", "cfg": "main-nosalt-fault", "inp": "tree", "out": best[0], "where": "rerun with reported salt %r (of %d candidates)" % (best[1], len(cands))})
        info.append(("run", "rerun with reported salt: %s" % json.dumps(best[2])[:200]))
    return ev, info


def run(pid, tier):
    ck = Check(pid, tier)
    thorough = tier == "thorough"
    ck.assumptions = ["directory enumeration order of an unchanged directory is stable", "output equality is decided on SHA-256 digests of the output text",
                      "with no salt the output is only required to be reproducible with the reported salt"]
    mp, mc, mr = (2, 2, 3) if thorough else (2, 2, 2)
    out = os.path.join(tlc.subdir("gen"), "proc_%d.ndjson" % os.getpid())
    r0 = tlc.require_ok(tlc.run("Process", "p.cfg", workers=16, env={"OUT_FILE": out}, extra={"p.cfg": process_cfg(False, False, False, True, mp, mc, mr)}, timeout=3000), "Process")
    ck.states += r0.distinct
    ck.transitions += r0.generated
    ck.models.append({"module": "Process", "cfg": "deviations off, <=%d processes, <=%d constructions each, <=%d runs" % (mp, mc, mr),
                      "what": "Deterministic over all histories of spawn/construct/run", **r0.summary()})
    nonvac = {}
    for name, dev in (("LeakReserved", (True, False, False)), ("OrderFromSeed", (False, True, False)), ("RandomSha", (False, False, True))):
        rr = tlc.run("Process", "p.cfg", workers=8, extra={"p.cfg": process_cfg(*dev, False, 2, 2, 2)})
        nonvac[name] = rr.invariant_violated == "Deterministic"
    ck.notes["each_deviation_refuted_by_tlc"] = nonvac
    if not all(nonvac.values()):
        raise common.MachineryError("Process.tla: a deviation is not refuted (vacuity guard): %s" % nonvac)
    hists = [json.loads(x)["hist"] for x in sorted(set(open(out).read().splitlines()))]
    os.remove(out)
    ck.notes["histories_generated"] = len(hists)
    r = rng(pid)
    # prefer histories in which some <<cfg, input>> is produced at least twice (others cannot violate anything)
    def interesting(h):
        keys = []
        cons = {}
        for a in h:
            if a["a"] == "construct":
                cons.setdefault(a["p"], []).append(a["cfg"])
            elif a["a"] == "run":
                keys.append((cons[a["p"]][a["k"] - 1], a["inp"]))
        return len(keys) != len(set(keys)) or any(k[0] == "nosalt" for k in keys)
    good = [h for h in hists if interesting(h)]
    ck.notes["histories_with_a_repeated_configuration_input_pair"] = len(good)
    sample = r.sample(good, min(len(good), 600 if thorough else 110))
    traces, meta = [], []
    with concurrent.futures.ThreadPoolExecutor(max_workers=common.NPROC) as ex:
        for h, (ev, info) in zip(sample, ex.map(replay_history, sample)):
            traces.append(ev)
            meta.append({"hist": h, "info": info})
            ck.count(("hist", json.dumps(h, sort_keys=True)))
    # every configuration x every input in two fresh interpreters (hash seed 0 and random) and twice in one process:
    # the sampled histories above may miss a configuration, this baseline never does
    base_hist = []
    for cid in CFGS:
        for inp in INPUTS:
            other = "other" if cid != "other" else "full"
            base_hist.append([{"a": "spawn", "seed": 0}, {"a": "spawn", "seed": 2},
                              # (process 2 first builds, uses and discards an anonymizer with ANOTHER salt and other options)
                              {"a": "discard", "p": 2, "cfg": other, "inp": inp}, {"a": "discard", "p": 2, "cfg": cid, "salt": "another salt", "inp": inp},
                              {"a": "construct", "p": 1, "cfg": cid}, {"a": "construct", "p": 2, "cfg": cid},
                              {"a": "run", "p": 1, "k": 1, "inp": inp}, {"a": "run", "p": 2, "k": 1, "inp": inp}, {"a": "run", "p": 1, "k": 1, "inp": inp}])
    with concurrent.futures.ThreadPoolExecutor(max_workers=common.NPROC) as ex:
        for h, (ev, info) in zip(base_hist, ex.map(replay_history, base_hist)):
            traces.append(ev)
            meta.append({"hist": h, "info": info})
    ev, info = main_runs(ck)
    traces.append(ev)
    meta.append({"hist": "command line, three hash seeds", "info": info})
    ev, info = main_nosalt_fault(ck)
    traces.append(ev)
    meta.append({"hist": "command line, no salt, failing files in the middle", "info": info})
    ev, info = main_history(ck)
    traces.append(ev)
    meta.append({"hist": "main() called repeatedly in one process", "info": info})
    validate_traces("ProcessTrace", "ProcessTrace.cfg", traces)
    ck.traces += len(traces)
    ck.events += sum(len(t) for t in traces)
    for ti, lst in sorted(common.all_rejections.items()):
        m = meta[ti]
        for k, clause in lst:
            kind, txt = m["info"][k] if m["info"][k] else ("?", "?")
            e = traces[ti][k]
            others = [m["info"][j][1] for j, x in enumerate(traces[ti]) if x.get("ev") == "run" and x.get("cfg") == e.get("cfg") and x.get("inp") == e.get("inp") and j != k][:1]
            seeds = sorted({str(a.get("seed")) for a in m["hist"] if isinstance(a, dict) and a.get("a") == "spawn"}) if isinstance(m["hist"], list) else ["cli"]
            cfgs = sorted({a["cfg"] for a in m["hist"] if isinstance(a, dict) and a.get("a") == "construct"}) if isinstance(m["hist"], list) else ["main"]
            key = "clause=%s cfg=%s input=%s seeds=%s constructed=%s" % (clause, str(e.get("cfg", "")).split(":")[0], e.get("inp"), "differ" if len(seeds) > 1 else "same", "+".join(cfgs))
            ck.violation(key, "%s: %s  VERSUS  %s" % (clause, txt, others), {"history": m["hist"], "event": e, "trace": traces[ti]})
    ck.sample({"history": sample[0] if sample else None, "events": traces[0][:4]})
    ck.sample({"command_line": meta[-1]["info"][1:3]})
    ck.rule = ("cases = TLC-emitted histories (spawn hash seed / construct configuration / run input) in which some <configuration, input> pair is produced "
               "at least twice or the no-salt configuration is used; each replayed with real interpreter processes")
    return ck.finish()


if __name__ == "__main__":
    common.main_wrapper(lambda: run("C13", sys.argv[1] if len(sys.argv) > 1 else "quick"))
