"""Drivers and recorders for the address anonymizers (C01-C05, C17).

Everything here talks to the real classes through their public constructor
keywords (salt, preserve_prefixes, preserve_addresses, preserve_suffix,
salter) and records one event per public call return, in the format of
spec/IpTrace.tla.  Bits are lists of 0/1 (never integers >= 2**31).
"""
import io
import ipaddress

from common import rng  # noqa: F401  (also sets sys.path for netconan)
from netconan import ip_anonymization as ipa


def bits_of(n, w):
    return [(n >> (w - 1 - i)) & 1 for i in range(w)]


def int_of(bits):
    n = 0
    for b in bits:
        n = (n << 1) | b
    return n


def cidr_bits(cidr):
    n = ipaddress.ip_network(cidr)
    w = n.max_prefixlen
    return bits_of(int(n.network_address), w)[: n.prefixlen]


def bits_cidr4(bits):
    """CIDR string of a prefix given as bits (IPv4, padded with zeros)."""
    n = int_of(bits + [0] * (32 - len(bits)))
    return "%s/%d" % (ipaddress.IPv4Address(n), len(bits))


DEFAULT_PINS = [cidr_bits(c) for c in (
    "0.0.0.0/1", "128.0.0.0/2", "192.0.0.0/3", "224.0.0.0/4",
    "10.0.0.0/8", "172.16.0.0/12", "192.168.0.0/16")]
PRIVATE_NETS = ["10.0.0.0/8", "172.16.0.0/12", "192.168.0.0/16"]


_Base = getattr(ipa, "_BaseIpAnonymizer", None)      # opportunistic seam: skipped (and reported) when a refactoring removes it
HAVE_BASE = _Base is not None


class BaseAtWidth(_Base if HAVE_BASE else object):
    """The width-generic base class instantiated at an arbitrary width."""

    def __init__(self, salt, length, **kw):
        super().__init__(salt, length, **kw)

    @classmethod
    def get_addr_pattern(cls):
        return None

    @classmethod
    def make_addr(cls, addr_str):
        return int(addr_str)

    @classmethod
    def make_addr_from_int(cls, ip_int):
        return ip_int

    def should_anonymize(self, ip_int):
        return True


def cfg_event(w, ps, pins, nets, clauses):
    return {"ev": "cfg", "w": w, "ps": ps, "pins": [list(p) for p in pins],
            "nets": [list(p) for p in nets], "clauses": list(clauses)}


class Recorder:
    """Wraps one anonymizer instance; appends IpTrace events to a shared list."""

    def __init__(self, events, inst, anonymizer, w):
        self.events = events
        self.inst = inst
        self.a = anonymizer
        self.w = w

    def anon(self, x):
        try:
            y = self.a.anonymize(x)
        except Exception as e:  # an escaping exception is an event no trace module accepts
            self.events.append({"ev": "exc", "what": "anonymize: %r" % (e,)})
            return None
        self.events.append({"ev": "anon", "inst": self.inst, "x": bits_of(x, self.w), "y": bits_of(y, self.w)})
        return y

    def deanon(self, y):
        try:
            x = self.a.deanonymize(y)
        except Exception as e:
            self.events.append({"ev": "exc", "what": "deanonymize: %r" % (e,)})
            return None
        self.events.append({"ev": "deanon", "inst": self.inst, "x": bits_of(x, self.w), "y": bits_of(y, self.w)})
        return x

    def dump(self):
        buf = io.StringIO()
        try:
            self.a.dump_to_file(buf)
        except Exception as e:
            self.events.append({"ev": "exc", "what": "dump_to_file: %r" % (e,)})
            return None
        pairs = []
        bad = []
        for line in buf.getvalue().splitlines():
            parts = line.split("\t")
            try:
                if len(parts) != 2:
                    raise ValueError("not <orig>TAB<anon>")
                vals = []
                for p in parts:
                    if self.w == 32:
                        vals.append(int(ipaddress.IPv4Address(p)))
                    elif self.w == 128:
                        vals.append(int(ipaddress.IPv6Address(p)))   # an IPv4-looking line in an IPv6 dump is malformed
                    else:
                        vals.append(int(p))
                pairs.append([bits_of(vals[0], self.w), bits_of(vals[1], self.w)])
            except ValueError:
                bad.append(line[:80])
        self.events.append({"ev": "dump", "inst": self.inst, "pairs": pairs, "bad": bad})
        return pairs


def make_v4(salt, ps=None, pins=None, nets=None, salter=None):
    """pins / nets: lists of CIDR strings or None (None = library default)."""
    kw = {}
    if salter is not None:
        kw["salter"] = salter
    if ps is not None:
        kw["preserve_suffix"] = ps
    return ipa.IpAnonymizer(salt, None if pins is None else list(pins),
                            None if nets is None else list(nets), **kw)


def make_v6(salt, ps=None, salter=None):
    kw = {}
    if salter is not None:
        kw["salter"] = salter
    if ps is not None:
        kw["preserve_suffix"] = ps
    return ipa.IpV6Anonymizer(salt, **kw)


def expected_pins_v4(pins, nets):
    """The R-level preserved prefixes implied by constructor arguments."""
    p = DEFAULT_PINS if pins is None else [cidr_bits(c) for c in pins]
    n = [] if nets is None else [cidr_bits(c) for c in nets]
    return p, n


def table_salter(table):
    """A salter reading a model's flip/salter table {bitstring: bit}."""
    def f(salt, head):
        return table.get(head, 0)
    return f


def embed_models(w, ps, pins, nets, table, kinds=("v4", "base", "v6")):
    """Real anonymizers that embed the w-bit model <ps, pins, nets, table>.

    Yields (kind, width, anonymizer, cfg-event-args, pad) where pad is the
    number of low padding bits (preserved host bits of the embedding)."""
    out = []
    pin_c = [bits_cidr4(list(p)) for p in pins]
    net_c = [bits_cidr4(list(p)) for p in nets]
    if "v4" in kinds:
        a = make_v4("", ps=32 - w + ps, pins=pin_c, nets=net_c or None, salter=table_salter(table))
        out.append(("v4", 32, a, (32, 32 - w + ps, pins, nets), 32 - w))
    if "base" in kinds and HAVE_BASE and not pins and not nets:
        a = BaseAtWidth("", w, salter=table_salter(table), preserve_suffix=ps)
        out.append(("base", w, a, (w, ps, [], []), 0))
    if "v6" in kinds and not pins and not nets:
        a = make_v6("", ps=128 - w + ps, salter=table_salter(table))
        out.append(("v6", 128, a, (128, 128 - w + ps, [], []), 128 - w))
    return out
