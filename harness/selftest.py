"""./check selftest [--tier quick|thorough]: demonstrates that the binding bites and that benign changes pass.

1. Trace corruption: for each trace module a small accepted trace is corrupted in one field and must be rejected;
   an event is removed and the run must not report the trace as fully consumed with the same verdicts.
2. Mutants (mutants/mutants.json): realistic one-site changes of netconan applied to scratch copies of the
   repository; the named checks must exit 1 (or 0 for the benign ones).  quick runs a third of them.
This is not a property check and writes no evidence.
"""
import concurrent.futures
import json
import os
import shutil
import subprocess
import sys
import tempfile

import common
from common import validate_traces


def corrupt_traces():
    import ipdrive as D
    ok = True
    a = D.make_v4("selftest", 8)
    ev = [D.cfg_event(32, 8, D.DEFAULT_PINS, [], ["Consistent", "Pins", "Suffix"])]
    rec = D.Recorder(ev, 1, a, 32)
    for x in (0x01020304, 0x01020305, 0x0A000001, 0xC0A80101):
        rec.anon(x)
    good = json.loads(json.dumps(ev))
    bad = json.loads(json.dumps(ev))
    bad[2]["y"][5] ^= 1
    bad2 = json.loads(json.dumps(ev))
    bad2[3]["y"][31] ^= 1                      # a preserved host bit
    rej, _ = validate_traces("IpTrace", "IpTrace.cfg", [good, bad, bad2])
    res = (0 not in rej) and (1 in rej) and (2 in rej and rej[2][1] == "Suffix")
    print("selftest IpTrace: good accepted=%s, flipped image bit rejected=%s, flipped host bit rejected by Suffix=%s" % (0 not in rej, 1 in rej, rej.get(2)))
    ok &= res
    # Juniper
    import c_juniper as J
    e = J.call_enc("hunter2", "Q")
    e2 = json.loads(json.dumps(e))
    e2["body"][-1] = (e2["body"][-1] + 1) % 65
    rej, _ = validate_traces("JuniperTrace", "JuniperTrace.cfg", [[{"ev": "start"}, e], [{"ev": "start"}, e2]])
    print("selftest JuniperTrace: real ciphertext accepted=%s, one changed character rejected=%s" % (0 not in rej, rej.get(1)))
    ok &= (0 not in rej) and (1 in rej)
    # Pipeline
    cfg = {"ev": "cfg", "collapse": False, "clauses": ["Structure"]}
    line = {"ev": "line", "in": [ord(c) for c in " ip address 1.2.3.4  255.0.0.0\n"], "out": [ord(c) for c in " ip address 9.8.7.6  255.0.0.0\n"], "sens": [3]}
    badl = dict(line, out=[ord(c) for c in " ip address 9.8.7.6 255.0.0.0\n"])
    rej, _ = validate_traces("Pipeline", "Pipeline.cfg", [[cfg, line], [cfg, badl]])
    print("selftest Pipeline: structure kept accepted=%s, collapsed inner space without secret/word stage rejected=%s" % (0 not in rej, rej.get(1)))
    ok &= (0 not in rej) and (1 in rej)
    return ok


def run_mutant(m):
    d = tempfile.mkdtemp(prefix="nvself_")
    res = []
    try:
        subprocess.check_call(["rsync", "-a", "--exclude", ".git", common.REPO + "/", d + "/"])
        p = os.path.join(d, m["file"])
        s = open(p).read()
        if m["old"] not in s:
            return m["id"], [("-", "pattern-not-found", False)]
        open(p, "w").write(s.replace(m["old"], m["new"]))
        for c in m["checks"]:
            env = dict(os.environ, NETCONAN_REPO=d, VERIF_NO_EVIDENCE="1")
            r = subprocess.run([os.path.join(common.VERIF, "check"), c, "--tier", "quick"], env=env, stdout=subprocess.PIPE, stderr=subprocess.STDOUT, text=True)
            first = [l for l in r.stdout.splitlines() if l.strip().startswith("what:")][:1]
            res.append((c, r.returncode, r.returncode == m["expect"], first[0][:160] if first else ""))
    finally:
        shutil.rmtree(d, ignore_errors=True)
    return m["id"], res


def run(tier):
    ok = corrupt_traces()
    muts = json.load(open(os.path.join(common.VERIF, "mutants", "mutants.json")))
    if tier != "thorough":
        muts = muts[:: 3]
    bad = 0
    with concurrent.futures.ThreadPoolExecutor(max_workers=3) as ex:
        for mid, res in ex.map(run_mutant, muts):
            for r in res:
                good = r[2]
                bad += 0 if good else 1
                print("selftest mutant %-40s check %s exit %s %s %s" % (mid, r[0], r[1], "as expected" if good else "UNEXPECTED", r[3] if len(r) > 3 else ""))
    # replays written while running against mutants are not findings about the repository
    for f in os.listdir(os.path.join(common.VERIF, "replays")):
        if f.endswith(".json"):
            os.remove(os.path.join(common.VERIF, "replays", f))
    print("selftest: trace corruption %s, %d mutant expectations missed" % ("ok" if ok else "FAILED", bad))
    return 0 if ok and not bad else 1
