"""C10: listed sensitive words never survive; reserved words always do.

TLC model-checks Words.tla (M refines R for every try-order; no word survives
any admissible rewriting) and enumerates the configurations (WordsGen.tla).
The real SensitiveWordAnonymizer / FileAnonymizer are run on lines built from
each configuration's tokens - in this process and in child interpreters with
different PYTHONHASHSEED - and TLC judges every line (WordsTrace.tla): each
token must be a member of Rewrites(token) under the pseudonym function learned
from all instances, reserved tokens must be kept, no listed word may survive.
"""
import io
import json
import os
import subprocess
import sys

import common
import tlc
from common import Check, rng, validate_traces
from netconan import anonymize_files as AF
from netconan import sensitive_item_removal as SIR
from netconan.default_reserved_words import default_reserved_words

CLAUSES = ["Rewrite", "ReservedKept", "Survivor", "Functional"]
BUILTIN = {w.lower() for w in default_reserved_words}


def cps(s):
    return [ord(c) for c in s]


def gen_configs(ck, maxwords, maxresv):
    out = os.path.join(tlc.subdir("gen"), "words_%d.ndjson" % os.getpid())
    if os.path.exists(out):
        os.remove(out)
    cfg = "CONSTANTS MaxWords = %d  MaxResv = %d\nSPECIFICATION Spec\nINVARIANT Emit\nCHECK_DEADLOCK FALSE\n" % (maxwords, maxresv)
    r = tlc.require_ok(tlc.run("WordsGen", "wg.cfg", workers=8, env={"OUT_FILE": out}, extra={"wg.cfg": cfg}), "WordsGen")
    ck.states += r.distinct
    ck.transitions += r.generated
    ck.models.append({"module": "WordsGen", "cfg": "MaxWords=%d MaxResv=%d" % (maxwords, maxresv),
                      "what": "all word lists x user reserved sets with their interesting tokens", **r.summary()})
    cfgs = [json.loads(x) for x in sorted(set(open(out).read().splitlines()))]
    os.remove(out)
    return cfgs


_CHILD = r"""
import sys, json, io
sys.path.insert(0, %r)
from netconan.sensitive_item_removal import SensitiveWordAnonymizer
from netconan.default_reserved_words import default_reserved_words
job = json.load(sys.stdin)
res = []
for j in job:
    try:
        rw = set(default_reserved_words) | set(j["reserved"])
        a = SensitiveWordAnonymizer(j["words"], j["salt"], rw)
        outs = [a.anonymize(x) for x in j["lines"]]
        # pseudonym of a matched text: an anonymizer whose only word is that text, no reserved words
        # ("determined only by the salt and the matched text")
        learned = [SensitiveWordAnonymizer([t], j["salt"], []).anonymize(t) for t in j["learn"]]
        res.append(outs + learned)
    except Exception as e:
        res.append("EXC %%s: %%s" %% (type(e).__name__, e))
json.dump(res, sys.stdout)
"""


def child_run(jobs, hashseed):
    env = dict(os.environ, PYTHONHASHSEED=str(hashseed))
    p = subprocess.run([sys.executable, "-c", _CHILD % common.REPO], input=json.dumps(jobs), stdout=subprocess.PIPE,
                       stderr=subprocess.PIPE, text=True, env=env)
    if p.returncode != 0:
        raise common.MachineryError("child failed: " + p.stderr[-1500:])
    return json.loads(p.stdout)


def matched_texts(tokens, words):
    """Every substring of a token that equals a listed word without regard to case (projection helper)."""
    out = set()
    for t in tokens:
        tl = t.lower()
        for w in words:
            wl = w.lower()
            i = tl.find(wl)
            while i >= 0:
                out.add(t[i:i + len(w)])
                i = tl.find(wl, i + 1)
    return sorted(out)


def build_lines(r, cfg, n_pairs):
    toks = sorted(cfg["tokens"])
    lines = [t for t in toks]
    lines += ["  %s" % t for t in toks[::3]] + ["%s  " % t for t in toks[1::3]] + ["\t%s\t" % t for t in toks[2::5]]
    for _ in range(n_pairs):
        k = r.randint(2, 4)
        sep = r.choice([" ", "  ", " \t"])
        lines.append(r.choice(["", " ", "    "]) + sep.join(r.choice(toks) for _ in range(k)))
    lines += ["description link to %s site" % toks[0], "hostname %s-%s" % (toks[0], toks[-1])]
    return lines


def run(pid, tier):
    ck = Check(pid, tier)
    thorough = tier == "thorough"
    ck.assumptions = ["words obey the side condition of the property (first/last letter outside a-f, no run of six hex digits)",
                      "tokens equal to a reserved word only up to case are a don't-care",
                      "the built-in reserved list shipped with netconan is data, not code under test"]
    ck.model("Words", "Words.cfg", "M (fixed try-order) refines R (any admissible rewriting) and no listed word survives, "
             "all word sets <= 3 from a 5-word pool with overlaps, all orders, all tokens <= 4 letters", workers=16)
    res = tlc.run("Words", "WordsOrder.cfg", workers=4)
    ck.notes["model_shows_order_dependence_with_overlapping_words"] = (res.invariant_violated == "OrderIndependent")
    cfgs = gen_configs(ck, 3 if thorough else 2, 2 if thorough else 1)
    ck.notes["configurations"] = len(cfgs)
    r = rng(pid)
    if not thorough and len(cfgs) > 90:
        cfgs = r.sample(cfgs, 90)
    salts = ["TESTSALT", ""]
    jobs, info = [], []
    for ci, c in enumerate(cfgs):
        salt = salts[ci % 2]
        lines = build_lines(rng(pid, "lines", ci), c, 30 if thorough else 10)
        mts = matched_texts([t for ln in lines for t in ln.split()], c["words"])
        jobs.append({"words": c["words"], "reserved": c["reserved"], "salt": salt, "lines": lines, "learn": mts})
        info.append((c, salt, lines, mts))
        ck.count(("cfg", json.dumps(c["words"]), json.dumps(c["reserved"]), salt))
    # three interpreters with different hash seeds + this process through FileAnonymizer
    runs = [("seed0", child_run(jobs, 0)), ("seed1", child_run(jobs, 1)), ("seedR", child_run(jobs, "random"))]
    if thorough:
        runs += [("seed%d" % s, child_run(jobs, s)) for s in (2, 3, 12345)]
    # a fresh interpreter per configuration (no earlier anonymizer with another salt or word list in the process):
    # the pseudonym function learned there must agree with the one seen in the shared processes
    fresh_idx = list(range(0, len(jobs), max(1, len(jobs) // (40 if thorough else 14))))
    import concurrent.futures
    with concurrent.futures.ThreadPoolExecutor(max_workers=common.NPROC) as ex:
        fresh = dict(zip(fresh_idx, ex.map(lambda i: child_run([jobs[i]], 3)[0], fresh_idx)))
    ck.notes["configurations_also_run_in_a_fresh_process_each"] = len(fresh_idx)
    traces, meta = [], []
    for ji, (c, salt, lines, mts) in enumerate(info):
        relevant_builtin = sorted({t for ln in lines for t in ln.split() if t.lower() in BUILTIN})
        ev = [{"ev": "cfg", "words": [cps(w) for w in c["words"]],
               "reserved": [cps(w) for w in c["reserved"]] + [cps(w.lower()) for w in relevant_builtin], "clauses": CLAUSES}]
        texts = [None]
        outs_all = []
        for name, res in runs + ([("fresh-process", {ji: fresh[ji]})] if ji in fresh else []):
            o = res[ji]
            if isinstance(o, str):
                ev.append({"ev": "exc", "what": "%s: %s" % (name, o)})
                texts.append((name, o))
                continue
            outs_all.append((name, o))
            for t, p in zip(mts, o[len(lines):]):
                ev.append({"ev": "learn", "text": cps(t), "pseudo": cps(p)})
                texts.append((name, "learn %r -> %r" % (t, p)))
        # in-process, through FileAnonymizer.anonymize_io (word stage only), user reserved words passed the public way
        try:
            fa = AF.FileAnonymizer(anon_pwd=False, anon_ip=False, salt=salt, sensitive_words=list(c["words"]), reserved_words=list(c["reserved"]))
            buf = io.StringIO()
            fa.anonymize_io(io.StringIO("\n".join(lines) + "\n"), buf)
            o = buf.getvalue().split("\n")[:-1]
            outs_all.append(("FileAnonymizer", o))
        except Exception as e:
            ev.append({"ev": "exc", "what": "FileAnonymizer: %s: %s" % (type(e).__name__, e)})
            texts.append(("FileAnonymizer", "EXC"))
        for name, o in outs_all:
            for ln, out in zip(lines, o):
                ev.append({"ev": "line", "in": cps(ln), "out": cps(out)})
                texts.append((name, "%r -> %r" % (ln, out)))
        traces.append(ev)
        meta.append({"cfg": {"words": c["words"], "reserved": c["reserved"], "salt": salt}, "texts": texts})
    # secret stage and word stage together: a listed word in front of a scrub-mode syntax must not survive
    try:
        words = ["kitten", "zurnet"]
        fa = AF.FileAnonymizer(anon_pwd=True, anon_ip=False, salt="TESTSALT", sensitive_words=words)
        lines = ['{"kitten-key": "cable shared-secret FOOBARXQ"}', "kitten: key-string 7 0822455D0A16", "zurnet-gw ldap-login-password Hunter2Xq kitten",
                 "set system host-name kitten root-authentication encrypted-password \"$1$abcdefgh$abcdefghijklmnopqrstuv\"", "hostname kitten-rtr", "enable secret S3cretXq"]
        buf = io.StringIO()
        fa.anonymize_io(io.StringIO("\n".join(lines) + "\n"), buf)
        outs = buf.getvalue().split("\n")[:-1]
        ev = [{"ev": "cfg", "words": [cps(w) for w in words], "reserved": [], "clauses": ["Survivor"]}]
        texts = [None]
        for ln, o in zip(lines, outs):
            ev.append({"ev": "line", "in": cps(ln), "out": cps(o)})
            texts.append(("secrets+words", "%r -> %r" % (ln, o)))
        traces.append(ev)
        meta.append({"cfg": {"words": words, "reserved": [], "salt": "TESTSALT", "stage": "secrets+words"}, "texts": texts})
    except Exception as e:
        traces.append([{"ev": "cfg", "words": [], "reserved": [], "clauses": CLAUSES}, {"ev": "exc", "what": "secrets+words: %r" % (e,)}])
        meta.append({"cfg": {"stage": "secrets+words"}, "texts": [None, ("secrets+words", "EXC")]})
    # reserved secret values are left alone by the secret stage
    try:
        fa = AF.FileAnonymizer(anon_pwd=True, anon_ip=False, salt="s", reserved_words=["MyCorpkit", "plain"])
        import secretgen as SG
        # (the $9$ lines carry reserved words as their plaintext: seeing them must not make the words secrets)
        lines = ['secret "%s"' % SG.j9_encode("interface", "Q"), "tacacs-server key %s" % SG.j9_encode("MyCorpkit", "i"),
                 "password interface", "snmp-server community description", "enable secret MyCorpkit", 'key "plain"', "username bob password permit",
                 "password interface", "enable secret MyCorpkit"]
        buf = io.StringIO()
        fa.anonymize_io(io.StringIO("\n".join(lines) + "\n"), buf)
        outs = buf.getvalue().split("\n")[:-1]
        ev = [{"ev": "cfg", "words": [], "reserved": [cps(w) for w in ["interface", "description", "MyCorpkit", "plain", "permit"]], "clauses": CLAUSES}]
        texts = [None]
        for ln, o in zip(lines, outs):
            if "$9$" in ln:
                continue          # those secrets are replaced, of course
            ev.append({"ev": "line", "in": cps(ln), "out": cps(o)})
            texts.append(("secret-stage", "%r -> %r" % (ln, o)))
        traces.append(ev)
        meta.append({"cfg": {"words": [], "reserved": ["interface", "description", "MyCorpkit", "plain", "permit"], "salt": "s", "stage": "secrets"}, "texts": texts})
    except Exception as e:
        traces.append([{"ev": "cfg", "words": [], "reserved": [], "clauses": CLAUSES}, {"ev": "exc", "what": "secret stage: %r" % (e,)}])
        meta.append({"cfg": {"stage": "secrets"}, "texts": [None, ("secret-stage", "EXC")]})
    # very long lines (one-line dumps): a listed word lying across an 8 KiB / 16 KiB / 64 KiB boundary is still replaced
    try:
        words = ["kitten", "zurnet"]
        fa = AF.FileAnonymizer(anon_pwd=False, anon_ip=False, salt="longline", sensitive_words=words)
        ll = [" " * (b - off) + w + "-gw tail " + w for b in (8192, 16384, 65536) for off, w in ((3, "kitten"), (5, "ZURNET"), (1, "kitten"))][: 9 if tier == "thorough" else 5]
        buf = io.StringIO()
        fa.anonymize_io(io.StringIO("\n".join(ll) + "\n"), buf)
        outs = buf.getvalue().split("\n")[:-1]
        ev = [{"ev": "cfg", "words": [cps(w) for w in words], "reserved": [], "clauses": ["Survivor"]}]
        texts = [None]
        if len(outs) != len(ll):
            ev.append({"ev": "exc", "what": "long lines: %d lines in, %d lines out" % (len(ll), len(outs))})
            texts.append(("long-lines", "LINECOUNT"))
        else:
            for ln, o in zip(ll, outs):
                ev.append({"ev": "line", "in": cps(ln), "out": cps(o)})
                texts.append(("long-lines", "%r -> %r" % (ln.strip()[:60], o.strip()[:60])))
        traces.append(ev)
        meta.append({"cfg": {"words": words, "reserved": [], "salt": "longline", "stage": "long lines"}, "texts": texts})
    except Exception as e:
        traces.append([{"ev": "cfg", "words": [], "reserved": [], "clauses": CLAUSES}, {"ev": "exc", "what": "long lines: %r" % (e,)}])
        meta.append({"cfg": {"stage": "long lines"}, "texts": [None, ("long-lines", "EXC")]})
    # the same through the command line: -r words with capitals reach both stages as written (with and without -w)
    import subprocess
    cb = tlc.subdir("c10cli")
    cl_lines = ["password interface", "enable secret MyCorpkit", 'key "plain"', "snmp-server community PublicRO RO", "hostname kitten-1 MyCorpkit PublicRO",
                "username bob password permit", "tacacs-server key Corp-RO", "description PUBLICRO publicro mycorpkit"]
    with open(os.path.join(cb, "in.cfg"), "w") as fh:
        fh.write("\n".join(cl_lines) + "\n")
    for vi, wopt in enumerate((["-w", "kitten"], [])):
        resv = ["MyCorpkit", "plain", "PublicRO", "Corp-RO"]
        outp = os.path.join(cb, "out%d.cfg" % vi)
        p = subprocess.run([sys.executable, "-m", "netconan.netconan", "-p", "-s", "s", "-r", ",".join(resv), "-i", os.path.join(cb, "in.cfg"), "-o", outp] + wopt,
                           env=dict(os.environ, PYTHONPATH=common.REPO), cwd=cb, stdout=subprocess.PIPE, stderr=subprocess.PIPE, text=True)
        words = ["kitten"] if wopt else []
        ev = [{"ev": "cfg", "words": [cps(w) for w in words], "reserved": [cps(w) for w in ["interface", "permit", "description"] + resv], "clauses": CLAUSES}]
        texts = [None]
        for w in words:
            from netconan.sensitive_item_removal import SensitiveWordAnonymizer
            pw = SensitiveWordAnonymizer([w], "s", []).anonymize(w)
            ev.append({"ev": "learn", "text": cps(w), "pseudo": cps(pw)})
            texts.append(("command-line", "learn %r -> %r" % (w, pw)))
        if p.returncode != 0 or not os.path.isfile(outp):
            ev.append({"ev": "exc", "what": "main rc=%s %s" % (p.returncode, p.stderr[-300:])})
            texts.append(("command-line", "EXC"))
        else:
            for ln, o in zip(cl_lines, open(outp).read().split("\n")):
                ev.append({"ev": "line", "in": cps(ln), "out": cps(o)})
                texts.append(("command-line", "%r -> %r" % (ln, o)))
        traces.append(ev)
        meta.append({"cfg": {"words": words, "reserved": resv, "salt": "s", "stage": "command line -p -r" + (" -w" if wopt else "")}, "texts": texts})
    # the repository's own tests re-run under the recorder: every SensitiveWordAnonymizer.anonymize call they make
    import c_suite
    st, sm = c_suite.words_traces(CLAUSES)
    c_suite.note(ck)
    ck.notes["repository_test_suite_word_lines"] = sum(1 for t in st for e in t if e["ev"] == "line")
    traces += st
    meta += sm
    validate_traces("WordsTrace", "WordsTrace.cfg", traces, max_events_per_shard=3000)
    ck.traces += len(traces)
    ck.events += sum(len(t) for t in traces)
    for ti, lst in sorted(common.all_rejections.items()):
        m = meta[ti]
        for k, clause in lst:
            name, txt = m["texts"][k] if m["texts"][k] else ("?", "?")
            words = m["cfg"].get("words", [])
            feats = []
            if any(not w.isalnum() for w in words):
                feats.append("word-with-regex-metachar")
            if any(any(ch.isupper() for ch in w) for w in m["cfg"].get("reserved", [])):
                feats.append("reserved-with-capitals")
            key = "clause=%s via=%s %s" % (clause, "child" if name.startswith("seed") else name, "+".join(feats) or "plain")
            ck.violation(key, "%s: %s (words %s reserved %s salt %r)" % (name, txt, words, m["cfg"].get("reserved"), m["cfg"].get("salt")),
                         {"cfg": m["cfg"], "event": traces[ti][k], "clause": clause})
    ck.sample({"cfg": meta[0]["cfg"], "lines": [t for t in meta[0]["texts"] if t][-4:]})
    ck.rule = ("cases = <word list, user reserved set, salt> configurations enumerated by TLC; each runs ~60 lines built from the configuration's tokens "
               "in 3+ interpreters with different hash seeds and through FileAnonymizer")
    return ck.finish()


if __name__ == "__main__":
    common.main_wrapper(lambda: run("C10", sys.argv[1] if len(sys.argv) > 1 else "quick"))
