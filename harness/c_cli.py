"""C19: the command-line contract of netconan (validation, precedence, option equivalences).

1. TLC model-checks CliImpl.tla: the implementation-shaped step machine of main()
   (configargparse merge, argparse, main's ordered checks, library call, writes)
   satisfies the requirement module Cli.tla in every state (nothing written
   unless R decides Run, terminal observation accepted, library parameters =
   R's Params) and R's own theorems hold (placement irrelevant / command line
   wins, defaults, private == listing RFC 1918, every listed combination rejects).
2. TLC (CliGen.tla) enumerates option vectors: every option in every
   <<command line, config file>> placement with every value around five base
   vectors, pairs of options, the validation table, random walks.
3. Every vector becomes an argv (+ config file) and is run through the real
   netconan.netconan.main in a fresh process (fork) and a clean directory;
   a sample also through `python -m netconan.netconan` / the console-script
   call.  For every class of vectors with equal R-parameters the library
   anonymize_files(**Params) is run the same way (reference bytes).
4. Every run is one event judged by TLC against Cli.tla (CliTrace.tla).
"""
import hashlib
import json
import multiprocessing
import os
import select
import shutil
import signal
import subprocess
import sys
import threading
import time

import common
import tlc
from common import Check, MachineryError, rng, validate_traces

FLAGS = ["a", "p", "u", "pv"]
VALUED = ["i", "o", "s", "d", "w", "n", "r", "pp", "pa", "hb"]
OPTS = FLAGS + VALUED
LONG = {"a": "--anonymize-ips", "p": "--anonymize-passwords", "u": "--undo", "pv": "--preserve-private-addresses",
        "i": "--input", "o": "--output", "s": "--salt", "d": "--dump-ip-map", "w": "--sensitive-words",
        "n": "--as-numbers", "r": "--reserved-words", "pp": "--preserve-prefixes", "pa": "--preserve-addresses",
        "hb": "--preserve-host-bits"}
# unambiguous prefixes of the long options (argparse accepts them unless allow_abbrev is off;
# R lets an implementation refuse them, but an accepted one is the same option)
ABBR = {"a": "--anonymize-i", "p": "--anonymize-pass", "u": "--un", "pv": "--preserve-priv", "i": "--inp", "o": "--out",
        "s": "--sal", "d": "--dump", "w": "--sens", "n": "--as-num", "r": "--reserved", "pp": "--preserve-pref",
        "pa": "--preserve-addr", "hb": "--preserve-host"}
SHORT = {"a": "-a", "p": "-p", "u": "-u", "i": "-i", "o": "-o", "s": "-s", "d": "-d", "w": "-w", "n": "-n", "r": "-r"}
NONE = "-"

RFC = ["10.0.0.0/8", "172.16.0.0/12", "192.168.0.0/16"]
CLASSES = ["0.0.0.0/1", "128.0.0.0/2", "192.0.0.0/3", "224.0.0.0/4"]
PA1 = ["11.11.0.0/16", "111.111.111.111", "10.9.8.7"]     # the last one lies inside a private block (a host inside 10/8 does not stand for 10/8)
# token -> text given to netconan (the spec owns the meaning of list and host-bit tokens:
# Cli!Items / Cli!HbVal; check_tables() compares this table with what TLC emits)
TXT = {
    "in1": "in1", "in2": "in2", "out1": "out1", "out2": "out2", "EMPTY": "",
    "s1": "saltC19b", "s2": "otherSalt9", "map1": "map1.txt", "map2": "map2.txt",
    "w1": "intentionet,sensitive", "w2": "Zebra,secret phrase",
    "n1": "65432,12345", "n2": "701", "r1": "reservedword", "r2": "resTwo", "r3": "PublicRO,Corp-RO,ZebraKeep",
    "pp1": "192.168.2.0/24", "pp2": "12.0.0.0/8,192.0.0.0/3", "ppdef": ",".join(CLASSES + RFC),
    "pa1": ",".join(PA1), "parfc": ",".join(RFC), "pamix": ",".join(PA1 + RFC),
    "m1": "-1", "h0": "0", "h8": "8", "h17": "17", "h32": "32", "h33": "33",
}
ITEM_ORDER = CLASSES + RFC + PA1 + ["192.168.2.0/24", "12.0.0.0/8"]

IN1_A = """!
! Intentionet's sensitive test file (secret phrase inside)
hostname intentionet-sea-rtr1
username admin password 7 122A001901
enable secret 5 $1$wtHI$0rN7R8PKwC30AsCGA77vy.
password foobar
password reservedword
password resTwo
password RESTWO
password Reservedword
snmp-server community PublicRO RO
snmp-server community publicro RO
snmp-server community s3cr3tcomm RO
username admin password Corp-RO
username oper password corp-ro
description ZebraKeep zebra uplink zebrakeep
tacacs-server host 1.2.3.4 key pwd1234
pre-shared-key ascii-text "$9$eZkvX7dbs4JG"; ## SECRET-DATA
ip address 192.168.2.1 255.255.255.0
ip address 192.168.77.3 255.255.255.0
ip address 10.0.0.1 255.0.0.0
ip address 10.9.8.7 0.0.0.255
ip address 10.255.3.77/8
ip address 172.16.5.9 255.240.0.0
ip address 172.31.255.1/12
ip address 172.32.1.1/12
ip address 111.111.111.111
ip address 11.11.11.11 0.0.0.0
ip address 11.11.197.79 0.0.0.0
ip address 11.12.1.9
ip address 12.1.2.3
ip address 12.200.2.3
ip address 1.2.3.4 0.0.0.0
ip address 1.2.3.5
ip address 100.64.3.9
ip address 126.255.0.129
ip address 130.5.6.7
ip address 130.5.6.135
ip address 191.255.9.130
ip address 192.0.2.55
ip address 200.1.2.3
ip address 223.254.253.252
ip address 224.0.0.5
ip address 239.1.2.131
ip address 240.0.0.1
ip address 250.4.4.132
ipv6 address 2001:db8::1/64
ipv6 address 2001:db8::2/64
ipv6 address 2001:db8:85a3::8a2e:370:7334
ipv6 address 2001:2002::9d3b:1
ipv6 address fe80::1
ipv6 address fd00:1:2:3::abcd
ipv6 address 2620:0:860:2::1:80
router bgp 65432
 neighbor 1.2.3.77 remote-as 12345
 neighbor 2001:db8::77 remote-as 701
# Sensitive word zebra here, sensitive again ZEBRA
AS num 12345 and 65432 and 701 should be changed
"""
IN1_B = """set system host-name secret phrase-lax
set interfaces ge-0/0/0 unit 0 family inet address 10.20.30.40/24
set interfaces ge-0/0/1 unit 0 family inet address 172.20.1.200/24
set interfaces ge-0/0/2 unit 0 family inet address 192.168.2.77/24
set interfaces ge-0/0/3 unit 0 family inet address 8.8.8.8/32
set interfaces ge-0/0/4 unit 0 family inet address 8.8.4.4/32
set interfaces ge-0/0/5 unit 0 family inet address 150.1.2.3/24
set interfaces ge-0/0/6 unit 0 family inet address 199.9.9.9/24
set interfaces ge-0/0/7 unit 0 family inet6 address 2001:db8:1::5/64
set interfaces ge-0/0/8 unit 0 family inet6 address 2a00:1450:4001:81b::200e/64
set routing-options autonomous-system 701
set snmp community intentionet authorization read-only
password anotherSecret
zebra intentionet 65432
"""
IN2 = """hostname sensitive-host-2
ip address 9.8.7.6 255.255.255.0
ip address 10.1.1.1
ip address 172.17.2.2
ip address 192.168.200.200
ip address 11.11.3.4
ip address 200.200.200.200
ip address 131.7.7.7
ip address 225.3.3.3
ip address 244.2.2.2
ipv6 address 2001:db8:ffff::9
ipv6 address 2400:cb00::1234
password hunter2222
password resTwo
snmp-server community PublicRO RO
a secret phrase Zebra intentionet
router bgp 701
 neighbor 9.9.9.9 remote-as 65432
"""
INPUT_TREE = {"in1/cfg1.txt": IN1_A, "in1/sub/cfg2.cfg": IN1_B, "in2/other.txt": IN2}
KEEP = {"in1", "in2", "c.cfg"}


# ---------------------------------------------------------------------------
# concretization
# ---------------------------------------------------------------------------
def vkey(v):
    return json.dumps({"cli": v["cli"], "cfg": v["cfg"], "sp": v["sp"]}, sort_keys=True, separators=(",", ":"))


def concretize(v):
    """option vector -> (argv, config text or None, description of the spelling choices)"""
    r = rng("C19", "spell", vkey(v))
    style = r.choice(["eq", "long", "short"])      # what "any" stands for in this vector
    groups = []
    items = [o for o in OPTS if v["cli"][o] != NONE]
    r.shuffle(items)
    for o in items:
        sp = v["sp"][o]
        if sp == "any":
            sp = style
            if o in FLAGS and sp == "eq":
                sp = "long"
            if sp == "short" and o not in SHORT:
                sp = "long"
        name = {"long": LONG[o], "eq": LONG[o], "short": SHORT.get(o), "glued": SHORT.get(o),
                "abbr": ABBR[o], "abbreq": ABBR[o]}[sp]
        if name is None:
            raise MachineryError("option %s has no short form (spelling %s)" % (o, sp))
        if o in FLAGS:
            groups.append([name])
            continue
        val = TXT[v["cli"][o]]
        if sp in ("eq", "abbreq") or (val.startswith("-") and name.startswith("--")):
            groups.append(["%s=%s" % (name, val)])
        elif sp == "glued" or val.startswith("-"):
            if val == "":
                raise MachineryError("the empty string cannot be glued to %s" % name)
            groups.append([name + val])
        else:
            groups.append([name, val])
    centries = [o for o in OPTS if v["cfg"][o] != NONE]
    cfg = None
    if centries or r.random() < 0.1:
        r.shuffle(centries)
        lines = ["[Defaults]"] if r.random() < 0.25 else []
        bare = r.random() < 0.5
        for o in centries:
            key = LONG[o][2:]
            val = v["cfg"][o]
            if o in FLAGS:
                lines.append(key if (val == "true" and bare) else "%s=%s" % (key, val))
            else:
                lines.append("%s=%s" % (key, TXT[val]))
        cfg = "\n".join(lines) + "\n"
        carg = r.choice([["-c", "c.cfg"], ["--config", "c.cfg"], ["--config=c.cfg"]])
        groups.insert(r.randrange(len(groups) + 1), carg)
    argv = [a for g in groups for a in g]
    return argv, cfg, style


def lib_kwargs(p):
    """R's Params (as emitted by TLC) -> keyword arguments of anonymize_files"""
    def lst(tok):
        return None if tok == NONE else TXT[tok].split(",")

    def ordered(items):
        unknown = [x for x in items if x not in ITEM_ORDER]
        if unknown:
            raise MachineryError("item without a place in ITEM_ORDER: %r" % unknown)
        return [x for x in ITEM_ORDER if x in items]
    return dict(
        input_path=TXT[p["input"]], output_path=TXT[p["output"]],
        anon_pwd=p["pwd"], anon_ip=p["ip"], undo_ip_anon=p["undo"],
        salt=None if p["salt"] == NONE else TXT[p["salt"]],
        dumpfile=None if p["dump"] == NONE else TXT[p["dump"]],
        sensitive_words=lst(p["words"]), as_numbers=lst(p["asn"]), reserved_words=lst(p["reserved"]),
        preserve_prefixes=ordered(p["prefixes"]),
        preserve_networks=ordered(p["nets"]) or None,
        preserve_suffix_v4=p["hb4"], preserve_suffix_v6=p["hb6"],
    )


def check_tables(vectors):
    """the harness's token table must say what the spec's Items / HbVal say"""
    for g in vectors:
        if g["decision"] != "Run":
            continue
        eff = {o: (g["cli"][o] if g["cli"][o] != NONE else g["cfg"][o]) for o in OPTS}
        p = g["params"]
        if eff["pp"] != NONE and set(TXT[eff["pp"]].split(",")) != set(p["prefixes"]):
            raise MachineryError("token table disagrees with Cli!Items on %s" % eff["pp"])
        on_pv = eff["pv"] in ("on", "true")
        if eff["pa"] != NONE and not on_pv and set(TXT[eff["pa"]].split(",")) != set(p["nets"]):
            raise MachineryError("token table disagrees with Cli!Items on %s" % eff["pa"])
        if eff["pa"] == NONE and on_pv and set(RFC) != set(p["nets"]):
            raise MachineryError("RFC 1918 table disagrees with Cli!RFC1918")
        if eff["pp"] == NONE and set(CLASSES + RFC) != set(p["prefixes"]):
            raise MachineryError("default prefix table disagrees with Cli!DefaultPrefixes")
        if eff["hb"] != NONE and int(TXT[eff["hb"]]) != p["hb4"]:
            raise MachineryError("token table disagrees with Cli!HbVal on %s" % eff["hb"])


# ---------------------------------------------------------------------------
# running one case in a fresh process (fork) and a clean directory
# ---------------------------------------------------------------------------
def _tree_digest(root, rels):
    h = hashlib.sha256()
    for rel in sorted(rels):
        with open(os.path.join(root, rel), "rb") as fh:
            b = fh.read()
        h.update(("%s\0%d\0" % (rel, len(b))).encode())
        h.update(b)
    return h.hexdigest()[:24]


def _list_files(root, top):
    out = []
    p = os.path.join(root, top)
    if os.path.isfile(p) or os.path.islink(p):
        return [top]
    for d, dirs, files in os.walk(p):
        for f in files:
            out.append(os.path.relpath(os.path.join(d, f), root))
    return out


def _prepare(wd):
    for rel, text in INPUT_TREE.items():
        p = os.path.join(wd, rel)
        os.makedirs(os.path.dirname(p), exist_ok=True)
        with open(p, "w", newline="") as fh:
            fh.write(text)


def _input_intact(wd):
    seen = set()
    for top in ("in1", "in2"):
        seen.update(_list_files(wd, top))
    if seen != set(INPUT_TREE):
        return False
    for rel, text in INPUT_TREE.items():
        with open(os.path.join(wd, rel), "rb") as fh:
            if fh.read() != text.encode():
                return False
    return True


def _child(wd, case, wfd):
    """runs in the forked child: call the real code, report how it completed"""
    try:
        os.chdir(wd)
        devnull = os.open(os.devnull, os.O_RDWR)
        for fd in (0, 1, 2):
            os.dup2(devnull, fd)
        res = {"outcome": "return", "etype": "", "msg": ""}
        try:
            if case["kind"] == "main":
                from netconan.netconan import main
                main(list(case["argv"]))
            else:
                from netconan.anonymize_files import anonymize_files
                anonymize_files(**case["kwargs"])
        except SystemExit as e:
            res = {"outcome": "exit0" if e.code in (0, None) else "exit", "etype": "SystemExit", "msg": str(e.code)}
        except BaseException as e:  # noqa: B902 - every way of not completing is an observation
            res = {"outcome": "exc", "etype": type(e).__name__, "msg": str(e)[:200]}
        os.write(wfd, json.dumps(res).encode())
    finally:
        os._exit(0)


def _fork_call(wd, case, timeout):
    """call the real code (main or anonymize_files) in a forked child; how did it complete"""
    rfd, wfd = os.pipe()
    pid = os.fork()
    if pid == 0:
        os.close(rfd)
        _child(wd, case, wfd)
    os.close(wfd)
    data = b""
    t_end = time.time() + timeout
    timed_out = False
    os.set_blocking(rfd, False)
    while True:
        left = t_end - time.time()
        if left <= 0:
            timed_out = True
            break
        rl, _, _ = select.select([rfd], [], [], min(left, 5))
        if rl:
            chunk = os.read(rfd, 65536)
            if not chunk:
                break
            data += chunk
    os.close(rfd)
    if timed_out:
        try:
            os.kill(pid, signal.SIGKILL)
        except OSError:
            pass
    os.waitpid(pid, 0)
    if timed_out:
        return {"outcome": "timeout", "etype": "timeout", "msg": ""}
    try:
        return json.loads(data.decode())
    except ValueError:
        return {"outcome": "crash", "etype": "no-result", "msg": ""}


def _run_case(wd, case):
    """One case in directory wd (which holds pristine inputs and nothing else).  A case
    that was killed by the harness's own timeout or died without reporting is run once
    more with a long timeout (an overloaded machine must not look like a defect)."""
    res = _run_case_once(wd, case, 120)
    if res["outcome"] in ("timeout", "crash"):
        res = _run_case_once(wd, case, 900)
    return res


def _run_case_once(wd, case, timeout):
    if case.get("cfg") is not None:
        with open(os.path.join(wd, "c.cfg"), "w") as fh:
            fh.write(case["cfg"])
    if case["kind"] == "proc":
        env = dict(os.environ, PYTHONPATH=common.REPO, NETCONAN_REPO=common.REPO)
        if case["how"] == "module":
            cmd = [sys.executable, "-m", "netconan.netconan"] + list(case["argv"])
        else:
            cmd = [sys.executable, "-c", "import sys; from netconan.netconan import main; sys.exit(main())"] + list(case["argv"])
        try:
            p = subprocess.run(cmd, cwd=wd, env=env, stdin=subprocess.DEVNULL, stdout=subprocess.DEVNULL,
                               stderr=subprocess.PIPE, timeout=timeout)
            err = p.stderr.decode("utf-8", "replace")
            if p.returncode == 0:
                res = {"outcome": "return", "etype": "", "msg": ""}
            elif p.returncode < 0:
                res = {"outcome": "crash", "etype": "signal", "msg": str(p.returncode)}
            else:
                last = (err.strip().splitlines() or [""])[-1]
                res = {"outcome": "exit", "etype": "rc=%d" % p.returncode, "msg": last[:200]}
        except subprocess.TimeoutExpired:
            res = {"outcome": "timeout", "etype": "timeout", "msg": ""}
    elif case["kind"] == "chain":
        # main(step 1) ; main(step 2) in two fresh processes; did the input tree come back?
        outs = []
        for argv in case["steps"]:
            outs.append(_fork_call(wd, {"kind": "main", "argv": argv}, timeout))
        res = {"outcome": "return" if all(o["outcome"] == "return" for o in outs) else
                          next(o["outcome"] for o in outs if o["outcome"] != "return"),
               "etype": ";".join(o["etype"] for o in outs), "msg": ";".join(o["msg"] for o in outs)[:200],
               "o1": outs[0]["outcome"], "o2": outs[1]["outcome"]}
        restored = True
        for rel, text in INPUT_TREE.items():
            if not rel.startswith(case["src"] + "/"):
                continue
            q = os.path.join(wd, case["final"], rel[len(case["src"]) + 1:])
            try:
                with open(q, "rb") as fh:
                    restored = restored and fh.read() == text.encode()
            except OSError:
                restored = False
        res["restored"] = restored
    else:
        res = _fork_call(wd, case, timeout)
    # what exists now that did not exist before
    files = []
    for top in sorted(os.listdir(wd)):
        if top in KEEP:
            continue
        fl = _list_files(wd, top)
        files += fl if fl else [top + "/"]
    cls = set()
    for rel in files:
        top = rel.split("/")[0]
        want_out, want_dump = case.get("out"), case.get("dump")
        if want_out and top == want_out:
            cls.add("out")
        elif want_dump and rel == want_dump:
            cls.add("dump")
        else:
            cls.add("other")
    real = [f for f in files if not f.endswith("/")]
    res["created"] = sorted(cls)
    res["files"] = sorted(files)
    res["digest"] = _tree_digest(wd, real) if files else "nothing"
    res["intact"] = _input_intact(wd)
    # restore the directory
    for top in os.listdir(wd):
        if top in ("in1", "in2") and res["intact"]:
            continue
        p = os.path.join(wd, top)
        if os.path.isdir(p) and not os.path.islink(p):
            shutil.rmtree(p, ignore_errors=True)
        else:
            try:
                os.remove(p)
            except OSError:
                pass
    if not res["intact"]:
        _prepare(wd)
    return res


_WD = None


def _worker_init(base):
    global _WD
    _WD = os.path.join(base, "w%d" % os.getpid())
    os.makedirs(_WD, exist_ok=True)
    _prepare(_WD)


def _worker(case):
    return _run_case(_WD, case)


def make_pool():
    """Workers are forked from the (still single-threaded) harness process right
    after netconan has been imported; each case then runs in a child forked from
    a worker, so no state of netconan is ever shared between two cases."""
    import netconan.anonymize_files  # noqa: F401
    import netconan.netconan  # noqa: F401
    base = tlc.subdir("cli_run")
    ctx = multiprocessing.get_context("fork")
    return ctx.Pool(common.NPROC, initializer=_worker_init, initargs=(base,))


def run_cases(pool, cases):
    if not cases:
        return []
    return pool.map(_worker, cases, chunksize=max(1, min(16, len(cases) // (common.NPROC * 16) or 1)))


def main_case(g, kind="main", how=None):
    argv, cfg, style = concretize(g)
    eff = {o: (g["cli"][o] if g["cli"][o] != NONE else g["cfg"][o]) for o in OPTS}
    c = {"kind": kind, "argv": argv, "cfg": cfg, "style": style,
         "out": TXT[eff["o"]] if eff["o"] not in (NONE, "EMPTY") else None,
         "dump": TXT[eff["d"]] if eff["d"] != NONE else None}
    if how:
        c["how"] = how
    return c


def lib_case(p, kwargs=None):
    kw = kwargs if kwargs is not None else lib_kwargs(p)
    return {"kind": "lib", "kwargs": kw, "cfg": None, "out": kw["output_path"], "dump": kw["dumpfile"]}


# ---------------------------------------------------------------------------
# TLC: model checking and vector generation
# ---------------------------------------------------------------------------
class _Ck(Check):
    """Check whose model() may be called from several threads (TLC runs overlap)."""
    _lock = threading.Lock()

    def model(self, module, cfg, what, **kw):
        r = tlc.require_ok(tlc.run(module, cfg, **kw), "%s/%s" % (module, cfg))
        with self._lock:
            self.states += r.distinct
            self.transitions += r.generated
            self.models.append({"module": module, "cfg": cfg, "what": what, **r.summary()})
        return r


def generate(tier, family, depth=0, simulate=None, seed=None):
    out = os.path.join(tlc.subdir("cli_gen"), "vec_%s_%d.ndjson" % (family, os.getpid()))
    if os.path.exists(out):
        os.remove(out)
    cfg = ('CONSTANTS Tier = "%s"  Family = "%s"  Depth = %d\nSPECIFICATION Spec\n'
           "INVARIANT GenTypeOK\nINVARIANT Emit\nCHECK_DEADLOCK FALSE\n" % (tier, family, depth))
    name = "CliGen_%s.cfg" % family
    r = tlc.run("CliGen", name, workers=1, env={"OUT_FILE": out}, extra={name: cfg},
                simulate=simulate, depth=(depth + 1) if simulate else None, seed=seed, timeout=1500)
    if simulate is None:
        tlc.require_ok(r, "CliGen/" + family)
    elif r.rc != 0:
        raise MachineryError("CliGen simulation failed (rc=%s):\n%s" % (r.rc, r.out[-2000:]))
    if not os.path.exists(out):
        raise MachineryError("CliGen produced no vectors (%s):\n%s" % (family, r.out[-2000:]))
    vecs = {}
    for line in open(out):
        g = json.loads(line)
        vecs.setdefault(vkey(g), g)
    os.remove(out)
    if simulate is None and len(vecs) != r.distinct:
        raise MachineryError("CliGen emitted %d vectors for %d states" % (len(vecs), r.distinct))
    return vecs, r


# ---------------------------------------------------------------------------
# keys (stable, from the input class) and bookkeeping
# ---------------------------------------------------------------------------
def placement(g, o):
    c, f = g["cli"][o], g["cfg"][o]
    if c == NONE and f == NONE:
        return None
    if f == NONE:
        return "cli"
    if c == NONE:
        return "cfg"
    if o in FLAGS:
        return "both-equal" if f == "true" else "both-conflict"
    return "both-equal" if c == f else "both-conflict"


def key_for(clause, g):
    """stable key from the input class: clause, decision-relevant class of the vector, kinds of placement used"""
    eff = {o: (g["cli"][o] if g["cli"][o] != NONE else g["cfg"][o]) for o in OPTS}
    places = ",".join(sorted({placement(g, o) for o in OPTS if placement(g, o)})) or "none"
    odd = sorted({"%s:%s/%s" % (o, g["sp"][o], placement(g, o)) for o in OPTS if g["sp"][o] not in (NONE, "any")})
    if odd:
        places += " spellings=" + ",".join(odd)
    if g["decision"] == "Reject":
        return "clause=%s reasons=%s placements=%s" % (clause, "+".join(g["reasons"]), places)
    feats = [o for o in ("a", "p", "u", "w", "n") if eff[o] not in (NONE, "false")]
    pv = eff["pv"] in ("on", "true")
    extra = ["hb=%s" % ("default" if eff["hb"] == NONE else TXT[eff["hb"]]),
             "prefixes=%s" % ("default" if eff["pp"] == NONE else "default-listed" if eff["pp"] == "ppdef" else "user"),
             "addresses=%s" % ("+".join((["listed"] if eff["pa"] != NONE else []) + (["private"] if pv else [])) or "none"),
             "salt=%s" % ("none" if eff["s"] == NONE else "empty-string" if eff["s"] == "EMPTY" else "given"),
             "dump=%s" % ("yes" if eff["d"] != NONE else "no"),
             "reserved=%s" % ("yes" if eff["r"] != NONE else "no")]
    return "clause=%s decision=%s features=%s %s placements=%s" % (clause, g["decision"], ",".join(feats) or "-", " ".join(extra), places)


def _signature(p):
    return (p["pwd"], p["ip"], p["undo"], p["words"] != NONE, p["asn"] != NONE, p["salt"] == "EMPTY")


def roundtrip_chains():
    """main -a -s X -i in1 -o mid ; main -u -s X -i mid -o back, the salt given the same way both times"""
    out = []
    for tok in ("s1", "EMPTY"):
        val = TXT[tok]
        spell = [("cli", ["--salt=" + val], None), ("cli", ["--salt", val], None), ("cli", ["-s", val], None),
                 ("cfg", ["-c", "c.cfg"], "salt=%s\n" % val),
                 ("cli-over-cfg", ["--config=c.cfg", "-s", val], "salt=%s\n" % TXT["s2"])]
        for place, sargs, cfg in spell:
            out.append({"kind": "chain", "salt": tok, "place": place, "cfg": cfg, "src": "in1", "final": "back",
                        "steps": [["-a", "-i", "in1", "-o", "mid"] + sargs, sargs + ["--undo", "--input", "mid", "--output=back"]]})
    return out


def sensitivity_probes(base):
    """library-level perturbations of one parameter each: does the input material
    make the parameter observable in the bytes?  (coverage evidence only)"""
    probes = {}
    for tag, salt in (("s1", TXT["s1"]), ("s2", TXT["s2"])):
        kw = dict(lib_kwargs(base), salt=salt)
        probes[tag + ":base"] = kw
        _probe_variants(probes, tag, kw)
    return probes


def _probe_variants(probes, tag, kw):
    def var(name, **ch):
        k = dict(kw)
        k.update(ch)
        probes[tag + ":" + name] = k
    var("salt", salt="yetAnotherSalt")
    var("salt-empty-string", salt="")
    var("pwd-off", anon_pwd=False)
    var("words", sensitive_words=["Zebra", "secret phrase"])
    var("asn", as_numbers=["701"])
    var("reserved", reserved_words=["resTwo"])
    var("reserved-mixed-case-list", reserved_words=["PublicRO", "Corp-RO", "ZebraKeep"])
    var("reserved-lower-cased", reserved_words=["publicro", "corp-ro", "zebrakeep"])
    var("hb4", preserve_suffix_v4=0)
    var("hb6", preserve_suffix_v6=0)
    var("hb-both-17", preserve_suffix_v4=17, preserve_suffix_v6=17)
    var("prefixes-user", preserve_prefixes=["192.168.2.0/24"])
    for drop in CLASSES[1:] + RFC:
        var("prefixes-default-minus-" + drop, preserve_prefixes=[x for x in CLASSES + RFC if x != drop])
    var("nets-pa1", preserve_networks=list(PA1))
    for net in RFC:
        var("nets-only-" + net, preserve_networks=[net])
    var("nets-rfc", preserve_networks=list(RFC))
    var("input", input_path="in2")
    var("output", output_path="out2")
    var("dump", dumpfile="map1.txt")


# ---------------------------------------------------------------------------
def run(pid, tier):
    ck = _Ck(pid, tier)
    thorough = tier == "thorough"
    ck.assumptions = [
        "the option names and config-file keys are the documented ones (README usage); values are simple tokens "
        "(letters, digits, . , / : _ -), lists are comma separated in both places",
        "a config-file flag is written flag=true / flag (on) or flag=false (off)",
        "attached short forms (-nV) are legal spellings; unambiguous abbreviations of long options are legal unless the "
        "implementation refuses abbreviations altogether (then: rejected, nothing written - accepted as don't-care)",
        "anonymize_files keyword parameters keep their meaning (they are the spec's parameter mapping); if the "
        "call is refused (TypeError) the reference falls back to the first accepted run of each class (recorded as drift)",
        "each case runs in a forked child of a process that has only imported netconan (no state shared between cases)",
        "TLC, the token<->text table (cross-checked against Cli!Items/HbVal) and the file-system snapshot are trusted",
    ]
    try:
        pool = make_pool()
    except Exception as e:  # the tree under test does not even import
        raise MachineryError("cannot import netconan from %s: %r" % (common.REPO, e))
    try:
        return _run(ck, pid, tier, thorough, pool)
    finally:
        pool.terminate()
        pool.join()


def _run(ck, pid, tier, thorough, pool):

    # ---- 1. model checking (overlapped with generation) --------------------
    jobs = [("CliImpl_thm.cfg" if thorough else "CliImpl_thmS.cfg",
             "theorems of R (placement irrelevant / cli wins, defaults 8+8 and class+private, private == listing, "
             "every listed combination rejects and nothing else is accepted) + M => R; a,u,pv,i,o,s,d,pp,pa,hb placements"),
            ("CliImpl_decision.cfg" if thorough else "CliImpl_decisionS.cfg",
             "M => R on the decision space: a,u in all 6 (quick 4) placements x i,o incl. EMPTY x s,d x hb "
             "(-1,0,8,32,33 cli/cfg/overridden) x p,w(,n): nothing written unless Run in every state, terminal "
             "observation accepted, call = Params"),
            ("CliImpl_params.cfg" if thorough else "CliImpl_paramsS.cfg",
             "M => R on the parameter space: valid vectors, s,d,w,r,pp,pa,pv,hb(,n,u) in cli/cfg/conflict placements: "
             "library call = R's Params")]
    errs = []

    def mc(cfg, what):
        try:
            ck.model("CliImpl", cfg, what, workers=6, timeout=1500)
        except Exception as e:  # re-raised in the main thread
            errs.append(e)
    threads = [threading.Thread(target=mc, args=j) for j in jobs]
    for t in threads:
        t.start()

    # ---- 2. TLC enumerates the vectors --------------------------------------
    wbox = []

    def gen_walk():
        try:
            wbox.append(generate(tier, "walk", depth=6, simulate="num=%d" % (1500 if thorough else 150), seed=common.SEED + 19))
        except Exception as e:
            errs.append(e)
    wthread = threading.Thread(target=gen_walk)
    wthread.start()
    try:
        vecs, res = generate(tier, "all")
    finally:
        wthread.join()
    if errs:
        raise errs[0]
    ck.models.append({"module": "CliGen", "cfg": "Family=all Tier=%s" % tier,
                      "what": "vector enumeration: place + pairs + table", **res.summary()})
    ck.states += res.distinct
    ck.transitions += res.generated
    walk, wres = wbox[0]
    ck.models.append({"module": "CliGen", "cfg": "Family=walk (simulate)", "what": "random walks of 6 placement changes from the base vectors",
                      **dict(wres.summary(), distinct=len(walk))})
    n_enum = len(vecs)
    for k, g in walk.items():
        vecs.setdefault(k, g)
    order = sorted(vecs)
    G = [vecs[k] for k in order]
    check_tables(G)
    ck.notes["vectors"] = {"enumerated": n_enum, "from_walks": len(G) - n_enum, "total": len(G)}

    # ---- 3. run everything ----------------------------------------------------
    cases = [main_case(g) for g in G]
    # classes of valid vectors with a salt
    classes = {}
    for idx, g in enumerate(G):
        if g["decision"] == "Run" and g["comparable"]:
            classes.setdefault(json.dumps(g["params"], sort_keys=True), []).append(idx)
    ckeys = sorted(classes)
    libcases = [lib_case(json.loads(k)) for k in ckeys]
    # repeatability of the library run: one class per feature signature, run twice
    sig = {}
    for k in ckeys:
        p = json.loads(k)
        sig.setdefault(_signature(p), k)
    repeat = [lib_case(json.loads(k)) for k in sig.values()]
    # a given salt - even the empty string - makes the run a function of it: every valid
    # vector whose salt is "" is run a second time (another fresh process)
    again_idx = [i for i, g in enumerate(G) if g["decision"] == "Run" and g["comparable"] and g["params"]["salt"] == "EMPTY"]
    againcases = [main_case(G[i]) for i in again_idx]
    # anonymize, then undo with the salt given the same way (two fresh processes each)
    chains = roundtrip_chains()
    # a sample through real interpreter processes
    r = rng(pid, "proc-sample")
    by_dec = {}
    for idx, g in enumerate(G):
        by_dec.setdefault((g["decision"], tuple(g["reasons"])), []).append(idx)
    proc_idx = []
    for kk in sorted(by_dec):
        proc_idx += r.sample(by_dec[kk], min(len(by_dec[kk]), 2 if thorough else 1))
    runs = [i for i, g in enumerate(G) if g["decision"] == "Run"]
    proc_idx += r.sample(runs, min(len(runs), 200 if thorough else 16))
    proc_idx = sorted(set(proc_idx))
    proccases = [main_case(G[i], kind="proc", how=("module" if n % 2 else "console")) for n, i in enumerate(proc_idx)]
    base_params = json.loads(vkey_params_base(G))
    probes = sensitivity_probes(base_params)
    pnames = sorted(probes)
    probecases = [lib_case(None, kwargs=probes[n]) for n in pnames]

    t_run = time.time()
    allcases = cases + libcases + repeat + proccases + probecases + againcases + chains
    results = run_cases(pool, allcases)
    ck.notes["run_wall_s"] = round(time.time() - t_run, 1)
    o1 = len(cases)
    o2 = o1 + len(libcases)
    o3 = o2 + len(repeat)
    o4 = o3 + len(proccases)
    o5 = o4 + len(probecases)
    o6 = o5 + len(againcases)
    R_main, R_lib, R_rep, R_proc, R_probe = results[:o1], results[o1:o2], results[o2:o3], results[o3:o4], results[o4:o5]
    again_of = dict(zip(again_idx, results[o5:o6]))
    R_chain = results[o6:]

    # sensitivity of the input material (evidence)
    pd = {n: R_probe[i] for i, n in enumerate(pnames)}
    obs = {}
    for n in pnames:
        tag, name = n.split(":", 1)
        b = pd[tag + ":base"]
        if name == "base":
            if b["outcome"] != "return":
                obs["probe-failed-" + tag] = "%s %s" % (b["etype"], b["msg"])
            continue
        obs[name] = obs.get(name, False) or (b["outcome"] == "return" and pd[n]["outcome"] == "return" and pd[n]["digest"] != b["digest"])
    for tag in ("s1", "s2"):
        x, y = pd.get(tag + ":reserved-mixed-case-list"), pd.get(tag + ":reserved-lower-cased")
        if x and y:
            obs["reserved-word-case"] = obs.get("reserved-word-case", False) or x["digest"] != y["digest"]
    ck.notes["parameters_observable_in_bytes"] = obs

    # library reference usable?  repeatable?
    nonrepeat = set()
    for (s, k), rr in zip(sig.items(), R_rep):
        first = R_lib[ckeys.index(k)]
        if rr["digest"] != first["digest"] or rr["outcome"] != first["outcome"]:
            nonrepeat.add(s)
    if nonrepeat:
        ck.notes["library_run_not_repeatable_for_feature_signatures(pwd,ip,undo,words,asn,salt-empty)"] = sorted(map(str, nonrepeat))

    def compared(sg):
        """bytes are not compared where the library run itself is not repeatable (C13's
        business) - unless that happens only with the empty salt while the same features
        with another salt are repeatable: then it is the handling of the given salt"""
        if sg not in nonrepeat:
            return True
        return sg[-1] and (sg[:-1] + (False,)) not in nonrepeat
    lib_unusable = 0
    for k, rr in zip(ckeys, R_lib):
        if rr["outcome"] != "return":
            lib_unusable += 1
            if len(ck.drift) < 10:
                ck.drift.append({"what": "library reference call did not return", "etype": rr["etype"], "msg": rr["msg"],
                                 "params": json.loads(k)})
    ck.notes["library_reference"] = {"classes": len(ckeys), "unusable": lib_unusable}

    # ---- 4. traces ------------------------------------------------------------
    def run_event(g, rr, via):
        return {"ev": "run", "cli": g["cli"], "cfg": g["cfg"], "sp": g["sp"], "outcome": rr["outcome"], "etype": rr["etype"],
                "created": rr["created"], "intact": rr["intact"], "digest": rr["digest"], "via": via}

    proc_of = {}
    for i, rr in zip(proc_idx, R_proc):
        proc_of[i] = rr
    traces, tmeta = [], []          # tmeta: list of (vector index | None, via) per event
    in_class = set()
    MAXT = 150
    for k in ckeys:
        p = json.loads(k)
        lr = R_lib[ckeys.index(k)]
        head = [{"ev": "start", "compare": bool(compared(_signature(p)))}]
        hmeta = [(None, "")]
        if lr["outcome"] == "return":
            head.append({"ev": "ref", "params": p, "digest": lr["digest"]})
            hmeta.append((None, ""))
        members = sorted(classes[k], key=lambda i: (sum(G[i]["cfg"][o] != NONE for o in OPTS), order[i]))
        evs, meta = list(head), list(hmeta)
        for i in members:
            in_class.add(i)
            evs.append(run_event(G[i], R_main[i], "fork"))
            meta.append((i, "fork"))
            if i in again_of:
                evs.append(run_event(G[i], again_of[i], "again"))
                meta.append((i, "again"))
            if i in proc_of:
                evs.append(run_event(G[i], proc_of[i], "proc"))
                meta.append((i, "proc"))
            if len(evs) >= MAXT and lr["outcome"] == "return":
                traces.append(evs)
                tmeta.append(meta)
                evs, meta = list(head), list(hmeta)
        if len(evs) > len(head):
            traces.append(evs)
            tmeta.append(meta)
    for i, g in enumerate(G):
        if i in in_class:
            continue
        evs, meta = [{"ev": "start", "compare": True}, run_event(g, R_main[i], "fork")], [(None, ""), (i, "fork")]
        if i in proc_of:
            evs.append(run_event(g, proc_of[i], "proc"))
            meta.append((i, "proc"))
        traces.append(evs)
        tmeta.append(meta)

    for n, (c, rr) in enumerate(zip(chains, R_chain)):
        traces.append([{"ev": "start", "compare": True},
                       {"ev": "roundtrip", "salt": c["salt"], "place": c["place"], "o1": rr.get("o1", rr["outcome"]),
                        "o2": rr.get("o2", rr["outcome"]), "restored": bool(rr.get("restored", False))}])
        tmeta.append([(None, ""), (("rt", n), "chain")])
    ck.notes["anonymize_then_undo_roundtrips"] = [{"salt": c["salt"], "place": c["place"], "steps": c["steps"], "config_file": c["cfg"],
                                                   "restored": rr.get("restored")} for c, rr in zip(chains, R_chain)]

    for t in threads:
        t.join()
    if errs:
        raise errs[0]

    rejected, states = validate_traces("CliTrace", "CliTrace.cfg", traces)
    ck.traces += len(traces)
    ck.events += sum(len(t) for t in traces)
    ck.notes["trace_states"] = states
    failures = []                     # (vector index, via, clause)
    second, smeta = [], []
    for ti, (k, clause) in sorted(rejected.items()):
        i, via = tmeta[ti][k]
        failures.append((i, via, clause))
        # the events behind the first rejection of a trace are judged on their own
        head = [e for e in traces[ti][:2] if e["ev"] in ("start", "ref")]
        learner = None
        if len(head) == 1 and traces[ti][0]["compare"]:
            learner = next((j for j in range(1, k) if traces[ti][j]["ev"] == "run"), None)
        for j in range(k + 1, len(traces[ti])):
            pre = list(head) + ([traces[ti][learner]] if learner is not None else [])
            second.append(pre + [traces[ti][j]])
            smeta.append(tmeta[ti][j])
    if second:
        second, smeta = second[:6000], smeta[:6000]
        rej2, st2 = validate_traces("CliTrace", "CliTrace.cfg", second)
        ck.traces += len(second)
        ck.events += sum(len(t) for t in second)
        for ti, (k, clause) in sorted(rej2.items()):
            if k == len(second[ti]) - 1:
                failures.append((smeta[ti][0], smeta[ti][1], clause))

    for i, via, clause in [f for f in failures if isinstance(f[0], tuple)]:
        c, rr = chains[i[1]], R_chain[i[1]]
        ck.violation("clause=%s salt=%s place=%s" % (clause, "empty" if c["salt"] == "EMPTY" else "nonempty", c["place"]),
                     "main(%r) then main(%r)%s in two fresh processes: outcomes %s / %s (%s), input restored: %s" %
                     (c["steps"][0], c["steps"][1], (" with config file %r" % c["cfg"]) if c["cfg"] else "",
                      rr.get("o1"), rr.get("o2"), rr.get("msg"), rr.get("restored")),
                     {"roundtrip": c, "observed": rr, "clause": clause})
    failures = [f for f in failures if not isinstance(f[0], tuple)]
    for i, via, clause in failures:
        if clause in ("HarnessBadVector", "HarnessGrouping", "UnknownEvent"):
            raise MachineryError("trace module reports %s for vector %s" % (clause, order[i] if i is not None else "?"))
    failures.sort(key=lambda f: (sum(G[f[0]]["cli"][o] != NONE or G[f[0]]["cfg"][o] != NONE for o in OPTS), order[f[0]], f[1]))
    for i, via, clause in failures:
        g = G[i]
        rr = R_main[i] if via == "fork" else again_of[i] if via == "again" else proc_of[i]
        case = proccases[proc_idx.index(i)] if via == "proc" else cases[i]
        argv = case["argv"]
        what = ("main(%r)%s [%s]: spec decision %s%s; observed outcome=%s %s %s created=%s input_intact=%s" %
                (argv, (" with config file %r" % case["cfg"]) if case["cfg"] is not None else "", via, g["decision"],
                 (" (" + ", ".join(g["reasons"]) + ")") if g["reasons"] else "", rr["outcome"], rr["etype"], rr["msg"][:80],
                 rr["files"][:6], rr["intact"]))
        if clause == "OutputDiffersWithinClass":
            what += "; bytes differ from the class reference anonymize_files(%s)" % json.dumps(lib_kwargs(g["params"]), sort_keys=True)
        ck.violation(key_for(clause, g), what, {"vector": {"cli": g["cli"], "cfg": g["cfg"], "sp": g["sp"]}, "argv": argv, "config_file": case["cfg"],
                                                "decision": g["decision"], "reasons": g["reasons"], "params": g["params"],
                                                "observed": rr, "clause": clause, "via": via})

    # ---- 5. evidence ----------------------------------------------------------
    dec = {}
    reasons = {}
    plc = {o: {} for o in OPTS}
    ndrift = 0
    for i, g in enumerate(G):
        ck.count(order[i])
        dec[g["decision"]] = dec.get(g["decision"], 0) + 1
        for rs in g["reasons"]:
            reasons[rs] = reasons.get(rs, 0) + 1
        for o in OPTS:
            pl = placement(g, o)
            if pl:
                plc[o][pl] = plc[o].get(pl, 0) + 1
        rr = R_main[i]
        m_out = g["m_outcome"]
        if (rr["outcome"], set(rr["created"])) != (m_out, set(g["m_created"])):
            ndrift += 1
            if len(ck.drift) < 10:
                ck.drift.append({"what": "M (CliM) predicts another observation", "vector": {"cli": g["cli"], "cfg": g["cfg"], "sp": g["sp"]},
                                 "model": [m_out, g["m_created"]], "code": [rr["outcome"], rr["etype"], rr["created"]]})
    # how the code words each rejection (single-reason vectors; evidence that the
    # concretization reaches the intended branch, never used for a verdict)
    how = {}
    for i, g in enumerate(G):
        if len(g["reasons"]) == 1:
            rr = R_main[i]
            d = how.setdefault(g["reasons"][0], {})
            kk = "%s: %s" % (rr["etype"], rr["msg"][:60])
            d[kk] = d.get(kk, 0) + 1
    ck.notes["observed_rejections_by_reason"] = how
    ck.evaluations += len(libcases) + len(repeat) + len(proccases) + len(againcases) + len(chains)
    ck.notes["empty_salt"] = {"valid_vectors_with_salt_empty_string": len(again_idx), "each_run_twice": True,
                              "placements": sorted({placement(G[i], "s") for i in again_idx})}
    ck.notes["decisions"] = dec
    ck.notes["reject_reasons_exercised"] = reasons
    ck.notes["dont_care_overridden_bad_config_hostbits"] = sum(1 for g in G if g["may"])
    ck.notes["placements_per_option"] = plc
    ck.notes["classes_with_equal_params"] = {"classes": len(ckeys), "vectors": len(in_class),
                                             "largest": max([len(v) for v in classes.values()] or [0])}
    ck.notes["runs_via_interpreter_process"] = len(proccases)
    ck.notes["model_drift_count"] = ndrift
    for i in (runs[:1] + [j for j, g in enumerate(G) if g["decision"] == "Reject"][:1] + (proc_idx[:1])):
        c = cases[i]
        ck.sample({"vector": {s: {o: x for o, x in G[i][s].items() if x != NONE} for s in ("cli", "cfg")},
                   "argv": c["argv"], "config_file": c["cfg"], "decision": G[i]["decision"], "reasons": G[i]["reasons"],
                   "observed": {k: R_main[i][k] for k in ("outcome", "etype", "created", "digest")}})
    ck.rule = ("cases = option vectors enumerated by TLC (CliGen: every option x every <<cli,cfg>> placement x every value "
               "around 5 base vectors; all pairs of options; the validation table of a,u,p,s,d,hb,w,n,i,o; every option in every "
               "spelling (long, long=, short, glued short, abbreviation, abbreviation=) over every config-file value of the same option; "
               "every feature subset x one further option value; random walks over placements and spellings), each "
               "concretized to argv + config file (spelling chosen by seeded rng) and run through the real main() in a fresh "
               "process; distinct_nontrivial = distinct vectors; every vector has a TLC-computed decision and every valid vector "
               "with a salt is compared byte-for-byte with anonymize_files(**Params) and with all vectors of equal Params")
    ck.exhaustive = False
    return ck.finish()


def vkey_params_base(G):
    """params of the richest valid vector (all features on) as json text"""
    best = None
    for g in G:
        if g["decision"] == "Run" and g["comparable"]:
            p = g["params"]
            score = (p["pwd"] + p["ip"] + (p["words"] != NONE) + (p["asn"] != NONE) + (p["reserved"] != NONE),
                     -len(p["nets"]), p["hb4"] == 8, len(p["prefixes"]), p["dump"] == NONE, p["input"] == "in1")
            if best is None or score > best[0]:
                best = (score, p)
    if best is None:
        raise MachineryError("no valid vector among the generated ones")
    return json.dumps(best[1])


def replay(pid, path):
    """Re-run the vector of a replay file through the code and TLC."""
    obj = json.load(open(path))
    case = obj["case"]
    g = {"cli": case["vector"]["cli"], "cfg": case["vector"]["cfg"]}
    g["sp"] = case["vector"].get("sp") or {o: ("any" if g["cli"][o] != NONE else NONE) for o in OPTS}
    c = {"kind": "main", "argv": case["argv"], "cfg": case["config_file"], "out": None, "dump": None}
    eff = {o: (g["cli"][o] if g["cli"][o] != NONE else g["cfg"][o]) for o in OPTS}
    c["out"] = TXT[eff["o"]] if eff["o"] not in (NONE, "EMPTY") else None
    c["dump"] = TXT[eff["d"]] if eff["d"] != NONE else None
    todo = [c]
    if case["decision"] == "Run" and isinstance(case.get("params"), dict) and "input" in case["params"]:
        todo.append(lib_case(case["params"]))
    pool = make_pool()
    try:
        res = run_cases(pool, todo)
    finally:
        pool.terminate()
        pool.join()
    evs = [{"ev": "start", "compare": True}]
    if len(res) > 1 and res[1]["outcome"] == "return":
        evs.append({"ev": "ref", "params": case["params"], "digest": res[1]["digest"]})
    evs.append({"ev": "run", "cli": g["cli"], "cfg": g["cfg"], "sp": g["sp"], "outcome": res[0]["outcome"], "etype": res[0]["etype"],
                "created": res[0]["created"], "intact": res[0]["intact"], "digest": res[0]["digest"], "via": "fork"})
    rejected, _ = validate_traces("CliTrace", "CliTrace.cfg", [evs])
    print("replay %s: argv=%r observed=%s" % (path, case["argv"], {k: res[0][k] for k in ("outcome", "etype", "msg", "files")}))
    if rejected:
        if rejected[0][1].startswith("Harness"):
            raise MachineryError("replay file is inconsistent: %s" % rejected[0][1])
        print("VIOLATION property=%s replay=%s clause=%s" % (pid, path, rejected[0][1]))
        return 1
    print("accepted by Cli.tla")
    return 0


if __name__ == "__main__":
    common.main_wrapper(lambda: run("C19", sys.argv[1] if len(sys.argv) > 1 else "quick"))
