"""C11: AS numbers - block-preserving, whole-number-only, keyed replacement.

Layers (DESIGN.md section 3 / 5-C11):
  1. TLC model-checks spec/AsNumMC.tla on scaled block tables: M => R for every
     number x every hash value 0..40 (upper end of every block included), and
     for every list (all prefix / suffix / concatenation relations) x every
     short line; R is shown determinate (not weaker than the property) and the
     eight named deviations of M are shown to be rejected (vacuity guard).
  2. mechanism C - the real AsNumberAnonymizer at every block boundary and its
     neighbours with the hash value injected through the module-level `md5`
     name (residues 0, 1, size-2, size-1, size, ... 2^128-1); without the seam:
     salts searched with the M-model's prediction (16-bit blocks) and bulk
     random salts x numbers (all of block 1, thousands of the others).
  3. mechanism A - lines from a digit-run grammar (listed number standalone,
     next to every punctuation class on either side, embedded in longer digit
     strings, repeated, near misses, realistic configuration lines) under
     lists with prefix / suffix / concatenation relations, through
     anonymize_as_numbers and FileAnonymizer.anonymize_io.
  4. functional: the same (salt, number) through many instances, list orders,
     lists, FileAnonymizer, after decoy anonymizers with other salts, and in
     fresh interpreter processes under different PYTHONHASHSEED values.
  5. generated salt: FileAnonymizer without a salt generates and reports one
     (public attribute .salt, else the WARNING record); that reported salt S is
     the salt in use, so the replacements it produces must be those of
     AsNumberAnonymizer(list, S) and of FileAnonymizer(salt=S, ...), in this
     process and in fresh ones.
  6. with the address stage: FileAnonymizer(as_numbers=..., anon_ip=True) and
     (..., undo_ip_anon=True) over BGP-style lines with a listed number next to
     a rewritten address, a mask, an IPv6 address; address tokens of input and
     output are projected to one placeholder code (asdrive.codes_projected), the
     rest of the line is judged by the same R clauses against the map learned
     from the AS-only FileAnonymizer with the same salt.
  7. list independence under collisions: 60-120 numbers of ONE block (the
     1024-number private block; the low 16-bit public range) chosen so that
     several of them share a replacement under the salt (observed on
     single-number anonymizers; birthday bound), then the same numbers through
     list anonymizers in ascending / descending / shuffled order, through two
     different overlapping lists and through FileAnonymizer - every answer must
     be the single-number anonymizer's (asMap[salt][n]).
  8. entry points: FileAnonymizer and netconan.netconan.main (fresh interpreter;
     -n LIST, configuration file as-numbers=LIST, listed numbers also given as
     reserved words), every block end point and its neighbours (0, 1, 2, ...)
     listed alone / before / after another number, on a small file with the
     number standalone and embedded - judged against an AsNumberAnonymizer built
     for the number alone with the same salt.
Every recorded call is an event judged by TLC against the R part of
spec/AsNum.tla via spec/AsNumTrace.tla; nothing is decided in Python.
"""
import concurrent.futures
import hashlib
import json
import os
import subprocess
import sys

import asdrive as D
import common
import tlc
from common import Check, MachineryError, rng, validate_traces

# the block table of the property statement; used ONLY to choose and label inputs
BOUNDS = [0, 64512, 65536, 4200000000, 4294967296]
M128 = (1 << 128) - 1


def block_of(n):
    for i in range(4):
        if n < BOUNDS[i + 1]:
            return i
    raise MachineryError("generator produced %r outside the AS range" % (n,))


def nlabel(n):
    """class of a number relative to its block's end points (for stable keys)."""
    n = int(n)
    b = block_of(n)
    d, u = n - BOUNDS[b], BOUNDS[b + 1] - 1 - n
    if d <= 2:
        return "b%d.first%s" % (b, "+%d" % d if d else "")
    if u <= 2:
        return "b%d.last%s" % (b, "-%d" % u if u else "")
    return "b%d.inner" % b


def boundary_numbers():
    ns = {0, 1, 2, BOUNDS[4] - 2, BOUNDS[4] - 1}
    for b in BOUNDS[1:4]:
        ns |= {b - 2, b - 1, b, b + 1}
    return sorted(ns)


MIDS = [30000, 65000, 1000000, 2147483647, 2147483648, 4250000000]
SALTS = [("empty", ""), ("ascii", "TESTSALT"), ("non-ascii+spaces", "é中 salt with spaces"), ("ends-in-digit", "salt9"),
         ("suite", "saltForTest"), ("digit-only", "0"), ("long", "netconan" * 25)]


def decode(cs):
    return "".join(chr(c + 48) if c < 10 else chr(c - 2000000) if c >= 2000000 else "<ADDR>" if c == D.ADDR else chr(c - 100) for c in cs)


# --------------------------------------------------------------------------
# traces under construction
# --------------------------------------------------------------------------
class T:
    """One trace: segments of operations (run here, under the md5 seam, or in a
    child interpreter) plus one stable, data-free label per operation."""

    def __init__(self, family, **meta):
        self.family = family
        self.meta = meta
        self.segments = []     # [where, ops]
        self.labels = []       # one per op, in order (anon: list of per-number labels)
        self.events = None
        self.drift = []

    def seg(self, where):
        self.segments.append([where, []])
        return self

    def _op(self, op, label):
        if not self.segments:
            self.seg("here")
        self.segments[-1][1].append(op)
        self.labels.append(label)

    def new(self, inst, kind, salt, lst, label):
        self._op(["new", inst, kind, salt, list(lst)], "%s api=%s" % (label, kind))

    def anon(self, inst, ns, learn=True, labels=None):
        self._op(["anon", inst, list(ns), bool(learn)], labels or ["n=" + nlabel(n) for n in ns])

    def line(self, inst, text, label):
        """returns the operation's index within its segment (for {"out": k} references)"""
        self._op(["line", inst, text], label)
        return len(self.segments[-1][1]) - 1

    def nops(self):
        return sum(len(s[1]) for s in self.segments)


class Seam:
    """Steering only: while active, the module-level name `md5` of
    netconan.sensitive_item_removal yields the chosen hash value."""

    def __init__(self, h):
        self.h = h
        self.calls = 0
        self.present = False

    def __enter__(self):
        import netconan.sensitive_item_removal as S
        self.S = S
        self.present = hasattr(S, "md5")
        if self.present:
            self.orig = S.md5
            seam = self

            class Fake:
                def __init__(self, *a, **k):
                    seam.calls += 1

                def update(self, *a):
                    pass

                def hexdigest(self):
                    return "%032x" % seam.h

                def digest(self):
                    return seam.h.to_bytes(16, "big")

                def copy(self):
                    return self
            S.md5 = Fake
        return self

    def __exit__(self, *a):
        if self.present:
            self.S.md5 = self.orig


def run_children(batches):
    """batches: {hashseed: [(job id, ops)]} -> {job id: events}; one fresh interpreter per hash seed."""
    def one(item):
        hs, jobs = item
        env = dict(os.environ)
        env.update({"PYTHONHASHSEED": hs, "NETCONAN_REPO": common.REPO,
                    "PYTHONPATH": common.REPO + os.pathsep + common.HERE})
        p = subprocess.run([sys.executable, os.path.join(common.HERE, "asdrive.py")], input=json.dumps(jobs),
                           stdout=subprocess.PIPE, stderr=subprocess.PIPE, text=True, env=env)
        if p.returncode != 0:
            raise MachineryError("child interpreter failed: " + p.stderr[-2000:])
        return json.loads(p.stdout)
    res = {}
    with concurrent.futures.ThreadPoolExecutor(max_workers=8) as ex:
        for out in ex.map(one, sorted(batches.items())):
            res.update(out)
    return res


def materialize(traces, ck=None):
    """Execute every trace's operations on the real code and fill t.events."""
    batches = {}
    parts = {}
    seam_used = seam_missing = 0
    for ti, t in enumerate(traces):
        insts = {}
        for si, (where, ops) in enumerate(t.segments):
            if where == "here":
                parts[(ti, si)] = D.execute(ops, insts)
            elif where[0] == "seam":
                with Seam(where[1]) as s:
                    evs = D.execute(ops, {})
                if s.present and s.calls:
                    seam_used += 1
                else:
                    seam_missing += 1
                if any(e["outcome"] != "ok" for e in evs):
                    plain = D.execute(ops, {})
                    if all(e["outcome"] == "ok" for e in plain):      # the seam, not the code, failed
                        t.drift.append("md5 seam not usable: %s" % [e.get("what", e["outcome"]) for e in evs if e["outcome"] != "ok"][:1])
                        evs = plain
                parts[(ti, si)] = evs
            else:
                hs = where[1]
                lst = batches.setdefault(hs, [])
                lst.append(("%d.%d" % (ti, si), ops))
    # children see the jobs in different orders (other anonymizers "created before")
    for k, hs in enumerate(sorted(batches)):
        if k % 2:
            batches[hs].reverse()
    if batches:
        os.environ["ASN_SCRATCH"] = tlc.subdir("asn_cli")      # scratch files of command-line runs
        res = run_children(batches)
        for jid, evs in res.items():
            ti, si = map(int, jid.split("."))
            parts[(ti, si)] = evs
    for ti, t in enumerate(traces):
        t.events = [{"ev": "start"}]
        for si in range(len(t.segments)):
            t.events += parts[(ti, si)]
        if len(t.events) != 1 + t.nops():
            raise MachineryError("recorder lost events")
        if any(e.get("salt_unobserved") for e in t.events):
            t.drift.append("generated salt not observable (no .salt attribute, no WARNING record): %s" % (t.meta,))
    if ck is not None:
        ck.notes["md5_seam"] = {"cases_with_injected_hash": seam_used, "cases_where_seam_was_absent_or_unused": seam_missing}
    return traces


# --------------------------------------------------------------------------
# M-model prediction (steering and drift only)
# --------------------------------------------------------------------------
def m_predict(salt, n, h=None):
    if h is None:
        h = int(hashlib.md5((salt + n).encode()).hexdigest(), 16)
    b = block_of(int(n))
    return str(h % (BOUNDS[b + 1] - BOUNDS[b]) + BOUNDS[b])


def hash_classes(S):
    top = M128 - ((M128 - (S - 1)) % S)
    return [("r=0", 0), ("r=1", 1), ("r=size-2", S - 2), ("r=size-1", S - 1), ("h=size", S), ("h=size+1", S + 1),
            ("h=2size-1", 2 * S - 1), ("h=k(size+1)+size", (S + 1) * 1000003 + S), ("h=2^128-1", M128),
            ("h=top,r=size-1", top)]


# --------------------------------------------------------------------------
# families of traces
# --------------------------------------------------------------------------
def gen_seam(thorough):
    """mechanism C: every boundary number x every hash class, hash injected."""
    traces = []
    nums = boundary_numbers() + MIDS
    for n in nums:
        b = block_of(n)
        S = BOUNDS[b + 1] - BOUNDS[b]
        t = T("boundary-x-hash", n=n)
        t.pred = []
        for k, (hname, h) in enumerate(hash_classes(S)):
            salt = "seam/%d/%s" % (n, hname)
            t.seg(("seam", h))
            t.new(k + 1, "class", salt, [str(n)], "n=%s hash=%s via=md5-seam" % (nlabel(n), hname))
            t.anon(k + 1, [str(n)], labels=["n=%s hash=%s via=md5-seam" % (nlabel(n), hname)])
            t.pred.append((2 * k + 2, m_predict(salt, str(n), h)))
        traces.append(t)
    return traces


def gen_predicted(thorough):
    """no seam: salts for which the M-model (md5(salt+number)) predicts the
    extreme residues; only feasible for the two 16-bit blocks."""
    traces = []
    wanted = {0: [0, 64511, 30000] if not thorough else [0, 1, 2, 64509, 64510, 64511, 30000, 12345],
              1: [64512, 64513, 65534, 65535, 65000]}
    for b, nums in wanted.items():
        S = BOUNDS[b + 1] - BOUNDS[b]
        for n in nums:
            ns = str(n)
            targets = {"r=0": lambda h: h % S == 0, "r=size-1": lambda h: h % S == S - 1,
                       "h%(size+1)=size": lambda h: h % (S + 1) == S}
            found = {}
            k = 0
            md5 = hashlib.md5
            while len(found) < len(targets) and k < 3000000:
                salt = "p%d" % k
                h = int(md5((salt + ns).encode()).hexdigest(), 16)
                if h % S in (0, S - 1) or h % (S + 1) == S:
                    for name, f in targets.items():
                        if name not in found and f(h):
                            found[name] = salt
                k += 1
            t = T("predicted-salt", n=n)
            t.pred = []
            for j, (name, salt) in enumerate(sorted(found.items())):
                lab = "n=%s hash=%s via=predicted-salt" % (nlabel(n), name)
                t.new(j + 1, "class", salt, [ns], lab)
                t.anon(j + 1, [ns], labels=[lab])
                t.pred.append((2 * j + 2, m_predict(salt, ns)))
            traces.append(t)
    return traces


def gen_bulk(r, thorough):
    traces = []
    nsalts = 16 if thorough else 12
    for i in range(nsalts):
        salt = "bulk/%d/%x" % (i, r.getrandbits(32))
        if thorough:
            # the complete 16-bit space, in lists of 4096 numbers
            lists = [[str(v) for v in range(lo, lo + 4096)] for lo in range(0, 65536, 4096)]
            lists.append([str(v) for v in sorted({r.randrange(65536, 4200000000) for _ in range(1500)}
                                                 | {r.randrange(4200000000, 4294967296) for _ in range(1500)}
                                                 | {65536 + r.randrange(3000) for _ in range(200)}
                                                 | {4199999999 - r.randrange(3000) for _ in range(200)}
                                                 | {4200000000 + r.randrange(3000) for _ in range(200)}
                                                 | {4294967295 - r.randrange(3000) for _ in range(200)})])
        else:
            nums = set(range(64512, 65536)) | {r.randrange(0, 64512) for _ in range(1500)} \
                | {r.randrange(65536, 4200000000) for _ in range(500)} | {r.randrange(4200000000, 4294967296) for _ in range(400)} \
                | set(boundary_numbers())
            lists = [[str(v) for v in sorted(nums)]]
        for li, lst in enumerate(lists):
            r.shuffle(lst)
            t = T("bulk", salt_index=i, chunk=li)
            t.new(1, "class", salt, lst, "bulk list of %d" % (len(lst) // 1000 * 1000))
            for j in range(0, len(lst), 50):
                part = lst[j:j + 50]
                t.anon(1, part, learn=False, labels=["n=%s via=bulk-random-salt" % nlabel(n) for n in part])
            traces.append(t)
    return traces


_P = "punct"
LEFT = [("bol", ""), ("space", " "), ("tab", "\t"), ("lower", "a"), ("upper", "Z"), ("underscore", "_"), ("hyphen", "-"),
        ("dot", "."), ("comma", ","), ("colon", ":"), ("semicolon", ";"), ("slash", "/"), ("backslash", "\\"),
        ("lparen", "("), ("rparen", ")"), ("lbracket", "["), ("rbracket", "]"), ("lbrace", "{"), ("rbrace", "}"),
        ("dquote", '"'), ("squote", "'"), ("equals", "="), ("plus", "+"), ("star", "*"), ("hash", "#"), ("at", "@"),
        ("bang", "!"), ("question", "?"), ("lt", "<"), ("gt", ">"), ("pipe", "|"), ("dollar", "$"), ("percent", "%"),
        ("caret", "^"), ("amp", "&"), ("tilde", "~"), ("backtick", "`"), ("nonascii-letter", "é"), ("cjk", "中"),
        ("nbsp", "\u00a0"), ("vtab", "\x0b"), ("cr", "\r"), ("nul", "\x00")]
RIGHT = [("eol-none", ""), ("eol-nl", "\n"), ("eol-crnl", "\r\n")] + LEFT[1:]
PRE = ["", "x", "router bgp", "neighbor peer remote-as", "interface Gi0/1 as"]
POST = ["", "x", " remote", "end of line 7"]
WRAPS = [("bol-eol", "", ""), ("spaces", "as ", " x\n"), ("letters", "x", "y"), ("parens", "(", ")"), ("underscores", "_", "_\n"),
         ("hyphen-nl", "-", "\n"), ("colon-colon", "a:", ":b")]
SEPS = [("space", " "), ("comma", ","), ("colon", ":"), ("slash", "/"), ("hyphen", "-"), ("underscore", "_"), ("tab", "\t"),
        ("comma-space", ", "), ("word", " and ")]
TEMPLATES = [("router-bgp", "router bgp {n}\n"), ("remote-as", " neighbor peer-group-x remote-as {n}\n"),
             ("prepend", " set as-path prepend {n} {n} {m}\n"), ("route-target", "  route-target export {n}:100\n"),
             ("rd", " rd {n}:1\n"), ("aspath-regex", "ip as-path access-list 1 permit _{n}_\n"),
             ("aspath-anchored", "ip as-path access-list 2 permit ^{n}$\n"), ("confed", " bgp confederation peers {n} {m}\n"),
             ("junos", "    autonomous-system {n};\n"), ("junos-peer", "        peer-as {n};\n"),
             ("sentence", "! AS {n}.\n"), ("community", " set community {n}:{m} additive\n"),
             ("local-as", " neighbor x local-as {n} no-prepend replace-as\n"), ("quoted", 'description "AS{n}"\n')]


def digs(r, k, first_nonzero=True):
    s = "".join(r.choice("123456789") for _ in range(k))
    return s


def list_shapes(r, thorough):
    p = digs(r, 2)
    q = p + digs(r, 1)
    s3 = q + digs(r, 1)
    base = digs(r, 5)
    x, y = digs(r, 2), digs(r, 3)
    while y == x or x + y == y + x:
        y = digs(r, 3)
    big = sorted({str(r.randrange(0, 4294967296)) for _ in range(300)})
    r.shuffle(big)
    shapes = [
        ("single-b0", [str(r.randrange(100, 64000))]),
        ("single-b2", [str(r.randrange(70000, 4199999000))]),
        ("one-digit", ["1", "2", "7"]),
        ("prefix-chain short-first", [p, q, s3]),
        ("prefix-chain long-first", [s3, q, p]),
        ("suffix-chain", [base[3:], base[1:], base]),
        ("concat-closed", [x, y, x + y]),
        ("concat-open", [y, x]),
        ("with-zero", ["0", "10", "100", "1000"]),
        ("block-end-points", ["0", "64511", "64512", "65535", "65536", "4199999999", "4200000000", "4294967295"]),
        ("duplicates", [x, x, y, x]),
        ("max-and-its-prefix", ["4294967295", "429496729", "42"]),
        ("large-300 with chain", big + [p, q]),
    ]
    return shapes


def unlisted(r, L):
    while True:
        u = str(r.randrange(0, 10 ** r.randint(1, 11)))
        if u not in L:
            return u


def line_cases(r, n, L, full_ctx, beyond=False):
    """(label, text) for one listed number n under list L.  No line contains
    a non-ASCII numeric character (don't-care region)."""
    out = []

    def ctx(ln, lc, rn, rc):
        pre = "" if ln == "bol" else r.choice(PRE)
        post = "" if rn.startswith("eol") else r.choice(POST)
        out.append(("form=context left=%s right=%s" % (ln, rn), pre + lc + n + rc + post))
    if full_ctx:
        for ln, lc in LEFT:
            for rn, rc in RIGHT:
                ctx(ln, lc, rn, rc)
    else:
        for i, (ln, lc) in enumerate(LEFT):
            rn, rc = RIGHT[(i * 7 + 3) % len(RIGHT)]
            ctx(ln, lc, rn, rc)
        for i, (rn, rc) in enumerate(RIGHT):
            ln, lc = LEFT[(i * 5 + 1) % len(LEFT)]
            ctx(ln, lc, rn, rc)
    d = r.choice("123456789")
    others = [m for m in L if m != n][:2]
    emb = [("digit-before", d + n), ("digit-after", n + r.choice("0123456789")), ("zero-after", n + "0"),
           ("digit-both", d + n + d), ("self-concat", n + n),
           ("inside-long", str(r.randrange(10 ** 5, 10 ** 6)) + n + str(r.randrange(10 ** 5)))]
    emb += [("listed-concat", n + m) for m in others] + [("listed-concat-rev", m + n) for m in others]
    for kind, run in emb:
        for wn, wl, wr in r.sample(WRAPS, 3):
            out.append(("form=embedded kind=%s wrap=%s" % (kind, wn), wl + run + wr))
    if beyond:
        # a digit BEYOND the punctuation on either side: d p N, N p d, d p N p d (1.65001, 65001.1, 7:65001/9)
        for pn, pc in LEFT:
            if pn in ("bol", "lower", "upper", "nonascii-letter", "cjk"):
                continue
            d1, d2 = r.choice("123456789"), str(r.randrange(1, 300))
            out.append(("form=digit-beyond-punct punct=%s shape=dpN" % pn, "as " + d2 + pc + n + " x\n"))
            out.append(("form=digit-beyond-punct punct=%s shape=Npd" % pn, n + pc + d1 + "\n"))
            out.append(("form=digit-beyond-punct punct=%s shape=dpNpd" % pn, "x " + d1 + pc + n + pc + d2))
        out.append(("form=digit-beyond-punct punct=dot shape=dotted-quad-like", "network 10." + n + ".0.0 area 1\n"))
    for sn, sep in SEPS:
        m = r.choice(L)
        out.append(("form=repeat sep=%s" % sn, "x " + n + sep + n + sep + m + " y\n"))
    out.append(("form=alone eol=none", n))
    out.append(("form=alone eol=nl", n + "\n"))
    out.append(("form=alone eol=crnl", n + "\r\n"))
    if len(n) > 1:
        out.append(("form=near-miss kind=last-digit-dropped", "as " + n[:-1] + " x\n"))
    out.append(("form=near-miss kind=last-digit-changed", "as " + n[:-1] + str((int(n[-1]) + 1) % 10) + "\n"))
    for tn, tpl in TEMPLATES:
        out.append(("form=config template=%s" % tn, tpl.format(n=n, m=r.choice(L))))
    for k in range(4):
        u = unlisted(r, L)
        wn, wl, wr = r.choice(WRAPS)
        out.append(("form=unlisted-number wrap=%s" % wn, wl + u + wr))
    out.append(("form=no-digits", "no digits here, just text: é中\n"))
    out.append(("form=empty-line", ""))
    out.append(("form=newline-only", "\n"))
    out.append(("form=spaces-only", "   \t \n"))
    return out


def gen_lines(r, thorough):
    traces = []
    salts = SALTS[:3] if not thorough else SALTS
    for shape, lst in list_shapes(r, thorough):
        L = list(dict.fromkeys(lst))
        targets = L[:4] if len(L) <= 8 else [L[0], L[-1], L[-2], L[len(L) // 2]]
        if shape == "block-end-points":
            targets = L
        for ki, kind in enumerate(("class", "file")):
            slabel, salt = salts[(len(traces) + ki) % len(salts)]
            cases = []
            for ni, n in enumerate(targets):
                full = thorough and ni == 0 and shape in ("single-b0", "prefix-chain short-first")
                cases += line_cases(r, n, L, full, beyond=(ni == 0 or thorough))
            for c0 in range(0, len(cases), 60):
                t = T("lines", shape=shape, kind=kind)
                t.new(1, "class", salt, lst, "list=%s" % shape)
                t.anon(1, L if len(L) <= 10 else targets)      # long lists: the rest is learned from the lines
                inst = 1
                if kind == "file":
                    inst = 2
                    t.new(2, "file", salt, lst, "list=%s" % shape)
                    for n in (L if len(L) <= 10 else targets):       # FileAnonymizer's own map, learned from lines
                        t.line(2, n + "\n", "form=alone eol=nl list=%s api=file" % shape)
                for label, text in cases[c0:c0 + 60]:
                    t.line(inst, text, "%s list=%s api=%s" % (label, shape, kind))
                traces.append(t)
    return traces


def gen_functional(r, thorough):
    traces = []
    NS = [str(n) for n in boundary_numbers() + MIDS]
    for slabel, salt in (SALTS if thorough else SALTS[:4]):
        t = T("functional", salt_class=slabel)
        lab = "salt=%s" % slabel
        other, other2 = salt + "~", "Z" + salt
        sh1, sh2 = NS[:], NS[:]
        r.shuffle(sh1)
        r.shuffle(sh2)
        extra = [str(r.randrange(0, 4294967296)) for _ in range(20)]
        t.seg("here")
        t.new(1, "class", salt, NS, "first instance " + lab)
        t.anon(1, NS)
        t.new(2, "class", other, NS, "decoy with another salt " + lab)
        t.anon(2, NS)
        for j, n in enumerate(NS[:8]):
            t.new(10 + j, "class", salt, [n], "single-number list " + lab)
            t.anon(10 + j, [n], labels=["n=%s single-number list after decoy %s" % (nlabel(n), lab)])
        t.new(3, "class", salt, sh1 + [e for e in extra if e not in NS] + sh1[:6], "other list order + extra numbers + repeated entries " + lab)
        t.anon(3, sh1[::-1], labels=["n=%s other list order, reverse queries %s" % (nlabel(n), lab) for n in sh1[::-1]])
        t.new(4, "file", salt, NS[::2], "FileAnonymizer sub-list " + lab)
        for n in NS[::2][::-1]:
            t.line(4, n + "\n", "form=alone n=%s FileAnonymizer sub-list %s api=file" % (nlabel(n), lab))
        t.new(20, "file", other, NS, "FileAnonymizer decoy with another salt " + lab)
        t.line(20, "router bgp " + NS[3] + "\n", "form=config FileAnonymizer decoy %s api=file" % lab)
        t.new(21, "file", salt, sh1, "second FileAnonymizer, other list order " + lab)
        for n in sh2:
            t.line(21, " neighbor x remote-as " + n + "\n", "form=config n=%s second FileAnonymizer after decoy %s api=file" % (nlabel(n), lab))
        t.seg(("child", "0"))
        t.new(5, "class", other2, NS, "child decoy first " + lab)
        t.anon(5, NS)
        t.new(6, "class", salt, sh2, "fresh process hashseed=0 after decoy " + lab)
        t.anon(6, sh2, labels=["n=%s fresh process hashseed=0 after decoy %s" % (nlabel(n), lab) for n in sh2])
        t.new(7, "file", salt, NS, "fresh process FileAnonymizer " + lab)
        for n in NS:
            t.line(7, "router bgp " + n + "\n", "form=config n=%s fresh process hashseed=0 %s api=file" % (nlabel(n), lab))
        t.seg(("child", "1"))
        t.new(8, "class", salt, NS[:9], "fresh process hashseed=1 short list " + lab)
        t.anon(8, NS[:9][::-1], labels=["n=%s fresh process hashseed=1 %s" % (nlabel(n), lab) for n in NS[:9][::-1]])
        t.seg(("child", "random"))
        t.new(9, "class", salt, NS[::-1], "fresh process random hashseed " + lab)
        t.anon(9, NS, labels=["n=%s fresh process random hashseed %s" % (nlabel(n), lab) for n in NS])
        t.seg("here")
        t.anon(1, NS[::-1], labels=["n=%s first instance asked again at the end %s" % (nlabel(n), lab) for n in NS[::-1]])
        traces.append(t)
    return traces


def gen_nosalt(r, thorough):
    """No salt supplied: FileAnonymizer generates a salt S and reports it (attribute .salt / WARNING record).
    S is then the salt in use: the (number -> replacement) pairs seen through that instance, through a direct
    AsNumberAnonymizer(list, S) and through FileAnonymizer(salt=S, ...) are fed into ONE learned map
    asMap[S] (for this family the class instance joins FileAnonymizer's salt name space: the reported salt
    is by definition the one the numbers are keyed with).  Every process generates its own S."""
    traces = []
    p = digs(r, 2)
    q = p + digs(r, 1)
    lists = [("block-end-points", ["0", "64511", "64512", "65535", "65536", "4199999999", "4200000000", "4294967295"]),
             ("prefix-chain short-first", [p, q, q + digs(r, 1)])]
    if thorough:
        lists += [("single-b2", [str(r.randrange(70000, 4199999000))]), ("one-digit", ["1", "2", "7"]),
                  ("inner numbers", [str(n) for n in MIDS])]
    wheres = ["here", ("child", "0")] + ([("child", "1"), ("child", "random")] if thorough else [])
    for shape, lst in lists:
        for where in wheres:
            proc = "this process" if where == "here" else "fresh process hashseed=%s" % where[1]
            lab = "list=%s %s" % (shape, proc)
            t = T("generated-salt", shape=shape, process=proc)
            t.seg(where)
            t._op(["new", 1, "file", None, lst], "FileAnonymizer without salt (generates and reports S) %s api=file" % lab)
            for n in lst:
                t.line(1, "router bgp " + n + "\n", "form=config n=%s FileAnonymizer without salt %s api=file" % (nlabel(n), lab))
            t.line(1, "x(" + lst[0] + ") " + lst[-1] + "9 _" + lst[-1] + "_\n", "form=mixed FileAnonymizer without salt %s api=file" % lab)
            t._op(["new", 2, "class", {"of": 1}, lst, "file"], "direct AsNumberAnonymizer(list, reported salt S) %s api=class" % lab)
            t.anon(2, lst, labels=["n=%s direct AsNumberAnonymizer with the reported salt S vs FileAnonymizer without salt %s" % (nlabel(n), lab)
                                   for n in lst])
            t._op(["new", 3, "file", {"of": 1}, lst[::-1]], "FileAnonymizer(salt=reported S) re-run %s api=file" % lab)
            for n in lst[::-1]:
                t.line(3, " neighbor x remote-as " + n + "\n",
                       "form=config n=%s FileAnonymizer(salt=reported S) re-run vs FileAnonymizer without salt %s api=file" % (nlabel(n), lab))
            t._op(["new", 4, "file", None, lst], "second FileAnonymizer without salt (its own S') %s api=file" % lab)
            t.line(4, "router bgp " + lst[0] + "\n", "form=config second FileAnonymizer without salt %s api=file" % lab)
            t._op(["new", 5, "class", {"of": 4}, lst, "file"], "direct AsNumberAnonymizer(list, reported salt S') %s api=class" % lab)
            t.anon(5, lst[:1], labels=["n=%s direct AsNumberAnonymizer with the reported salt S' %s" % (nlabel(lst[0]), lab)])
            traces.append(t)
    return traces


def observed_singles(salt, nums):
    """steering only: what an anonymizer built for the number ALONE answers (real code, no md5 assumption)"""
    out = {}
    for n in nums:
        try:
            out[n] = D.construct("class", [n], salt).anonymize(n)
        except Exception:
            out[n] = None
    return out


def gen_collisions(r, thorough, stats):
    """Many listed numbers of one block, several of which share their replacement under the salt: the answers
    of list anonymizers (any order, any other members) must be those of single-number anonymizers."""
    traces = []
    salts = [("demo", "demoSalt")] + SALTS[1:4] + ([SALTS[0], SALTS[4], ("random", "c%x" % r.getrandbits(40))] if thorough else [])
    blocks = [("b1-private", 64512, 65535, 90 if not thorough else 120, 8), ("b0-low-public", 1, 2001, 60 if not thorough else 100, 5)]
    for slabel, salt in salts:
        for bname, lo, hi, size, ngroups in blocks:
            pool = [str(v) for v in range(lo, hi)]
            obs = observed_singles(salt, pool)
            groups = {}
            for n in pool:
                if obs[n] is not None:
                    groups.setdefault(obs[n], []).append(n)
            coll = [g for g in groups.values() if len(g) > 1]
            r.shuffle(coll)
            chosen = []
            for g in coll[:ngroups]:
                chosen += g[:3]
            rest = [n for n in pool if n not in set(chosen)]
            r.shuffle(rest)
            chosen = chosen + rest[:max(0, size - len(chosen))]
            cset = set(chosen)
            shared = {n for g in groups.values() if len([m for m in g if m in cset]) > 1 for n in g if n in cset}
            npairs = sum(k * (k - 1) // 2 for k in (len([m for m in g if m in cset]) for g in groups.values()))
            stats.append({"salt": slabel, "block": bname, "listed": len(chosen), "colliding_pairs_observed": npairs,
                          "pool_groups_with_shared_replacement": len(coll)})
            lab = "block=%s salt=%s" % (bname, slabel)

            def nl(n, situation):
                return "n=%s %s %s %s" % (nlabel(n), situation,
                                          "replacement-shared-with-another-listed-number" if n in shared else "replacement-unshared", lab)
            asc = sorted(chosen, key=int)
            shuf = chosen[:]
            r.shuffle(shuf)
            t = T("collisions", block=bname, salt_class=slabel, colliding_pairs=npairs)
            t.seg("here")
            for k, n in enumerate(asc):
                t.new(1000 + k, "class", salt, [n], "single-number anonymizer (reference) " + lab)
                t.anon(1000 + k, [n], labels=[nl(n, "single-number anonymizer")])
            for i, (oname, lst) in enumerate((("ascending", asc), ("descending", asc[::-1]), ("shuffled", shuf))):
                t.new(1 + i, "class", salt, lst, "list of %d same-block numbers order=%s %s" % (len(lst) // 10 * 10, oname, lab))
                t.anon(1 + i, lst[::-1], labels=[nl(n, "list anonymizer order=%s" % oname) for n in lst[::-1]])
            # two different lists that overlap in the colliding numbers
            sh = sorted(shared, key=int)
            half = len(asc) // 2
            la = list(dict.fromkeys(sh + asc[:half]))
            lb = list(dict.fromkeys(asc[half:] + sh[::-1]))
            for i, (oname, lst) in enumerate((("first-half+shared", la), ("second-half+shared-reversed", lb))):
                t.new(10 + i, "class", salt, lst, "overlapping list %s %s" % (oname, lab))
                t.anon(10 + i, lst, labels=[nl(n, "overlapping list %s" % oname) for n in lst])
            # FileAnonymizer: its own name space; singles for the shared numbers, then both orders
            probe = (sh[:12] + [n for n in asc if n not in shared][:6]) or asc[:8]
            for k, n in enumerate(probe):
                t.new(2000 + k, "file", salt, [n], "single-number FileAnonymizer (reference) " + lab)
                t.line(2000 + k, "router bgp " + n + "\n", "form=config " + nl(n, "single-number FileAnonymizer") + " api=file")
            for i, (oname, lst) in enumerate((("ascending", asc), ("descending", asc[::-1]))):
                t.new(20 + i, "file", salt, lst, "FileAnonymizer list order=%s %s" % (oname, lab))
                for n in probe:
                    t.line(20 + i, " neighbor x remote-as " + n + "\n", "form=config " + nl(n, "FileAnonymizer list order=%s" % oname) + " api=file")
            if thorough:
                t.seg(("child", "random"))
                t.new(30, "class", salt, shuf[::-1], "fresh process, shuffled-reversed list " + lab)
                t.anon(30, asc, labels=[nl(n, "fresh process list anonymizer") for n in asc])
            traces.append(t)
    return traces


CLI_VALUES = [0, 1, 64511, 64512, 65534, 65535, 65536, 4199999999, 4200000000, 4294967294, 4294967295]


def gen_cli(r, thorough):
    """The FILE and COMMAND-LINE entry points (FileAnonymizer; main(), where the list arrives as ONE comma
    separated string): every block end point and its neighbours (0, 1, 2, 64510 ... 4294967295) listed
    alone, before and after another number, through -n, through a configuration file, and with the listed
    numbers given as user reserved words too (reserved words protect words and secrets, not AS numbers).
    Reference: an AsNumberAnonymizer built for the number alone with the same salt - in this family it
    shares the entry points' salt name space (the salt given to FileAnonymizer / -s is the salt in use)."""
    traces = []
    salts = [SALTS[1]] + ([SALTS[2], ("with-comma-and-space", "salt, with comma")] if thorough else [])
    for slabel, salt in salts:
        for v in boundary_numbers():
            n = str(v)
            partner = "65001"
            text = ("router bgp {n}\n neighbor peer remote-as {n}\nas{n}_ ({n}) x{n}: {n}9 9{n} 7{n}7\n{n}\n"
                    " bgp confederation peers {p} {n}\nvlan 7{p}\n{n}").format(n=n, p=partner)
            endpoint = v in CLI_VALUES
            variants = [("alone", "file", [n]), ("before-another", "file", [n, partner]),
                        ("alone", "cli", [n]), ("before-another", "cli", [n, partner])]
            if thorough or endpoint:
                variants.append(("after-another", "cli", [partner, n]))
            if thorough or v in (0, 2, 64512, 4294967295):
                variants += [("alone", "clicfg", [n]), ("before-another", "clicfg", [n, partner])]
            if thorough or v in (1, 64513, 65536, 4294967295):
                variants += [("alone+reserved", "fileresv", [n]), ("before-another+reserved", "cliresv", [n, partner])]
            for vname, kind, lst in variants:
                via = {"cli": "-n", "clicfg": "config-file", "cliresv": "-n -r", "file": "FileAnonymizer",
                       "fileresv": "FileAnonymizer(reserved_words)"}[kind]
                api = "main" if kind.startswith("cli") else "file"
                lab = "n=%s list=%s via=%s salt=%s" % (nlabel(n), vname, via, slabel)
                t = T("entry-points", n=v, variant=vname, via=via, salt_class=slabel)
                t.seg(("child", "0"))
                for k, m in enumerate(dict.fromkeys(lst)):
                    t._op(["new", 1 + k, "class", salt, [m], "file"], "single-number AsNumberAnonymizer (reference) %s api=class" % lab)
                    t.anon(1 + k, [m], labels=["n=%s single-number AsNumberAnonymizer (reference) %s" % (nlabel(m), lab)])
                t._op(["new", 9, kind, salt, lst], "entry point %s api=%s" % (lab, api))
                t.line(9, text, "form=file(standalone+embedded) entry point %s api=%s" % (lab, api))
                traces.append(t)
    return traces


IP_FORMS = [
    ("rewritten-v4 neighbor", "neighbor {a} remote-as {n}\n"),
    ("rewritten-v4 indented", " neighbor {b} remote-as {n}\n"),
    ("rewritten-v4 number-first", "{n} {a}\n"),
    ("rewritten-v4 two-numbers", "peer {b} {n} {m}\n"),
    ("rewritten-v4 prefix-and-nexthop", "ip route {c}/24 {a} tag {n}\n"),
    ("rewritten-v4 junos", "    neighbor {a}; peer-as {n};\n"),
    ("rewritten-v4 no-eol", "neighbor {a} remote-as {n}"),
    ("rewritten-v4 plus mask", "network {c} mask 255.255.255.0 as {n}\n"),
    ("mask-only", "mask 255.255.0.0 as {n}\n"),
    ("wildcard-only", "wildcard 0.0.0.255 as {n}\n"),
    ("ipv6 neighbor", "neighbor 2001:db8::1 remote-as {n}\n"),
    ("ipv6 link-local", " neighbor fe80::1234:5678 remote-as {n} vrf x\n"),
    ("ipv6 number-first with length", "{n} 2001:db8:1:2:3:4:5:6/64\n"),
    ("v4 and ipv6", "neighbor {a} 2001:db8::2 remote-as {n} {m}\n"),
    ("no-address control", "router bgp {n}\n"),
]


def gen_with_ip(r, thorough):
    """AS numbers together with the address stage (anon_ip=True) or address undo (undo_ip_anon=True).
    Listed numbers have 5+ digits, so none can be part of an address; address tokens are projected to
    a placeholder on both sides (asdrive.codes_projected) and R judges the rest of every line against
    the map learned from the AS-only FileAnonymizer of the same salt."""
    traces = []
    lists = [("5+digit block-end-points", ["64511", "64512", "65535", "65536", "4199999999", "4200000000"]),
             ("5+digit prefix-chain", ["64999", "649991", "6499912"])]
    if thorough:
        lists.append(("5+digit single-b3", [str(r.randrange(4200000000, 4294967296))]))
    salts = SALTS[1:3] if not thorough else SALTS[:5]
    wheres = ["here"] + ([("child", "0")] if thorough else [])
    for shape, lst in lists:
        for slabel, salt in salts:
            for where in wheres:
                proc = "this process" if where == "here" else "fresh process hashseed=%s" % where[1]
                lab = "list=%s salt=%s %s" % (shape, slabel, proc)
                addr = lambda: "%d.%d.%d.%d" % (r.choice([10, 11, 100, 172, 192, 203]), r.randrange(1, 255), r.randrange(1, 255), r.randrange(1, 255))
                cases = []
                for k, (fname, tpl) in enumerate(IP_FORMS):
                    n = lst[k % len(lst)]
                    cases.append((fname, tpl.format(n=n, m=lst[(k + 1) % len(lst)], a=addr(), b=addr(), c=addr().rsplit(".", 1)[0] + ".0")))
                # one trace per api variant (a rejection skips the rest of its trace)
                for variant in ("as_numbers+anon_ip", "as_numbers+undo_ip_anon", "as_numbers+undo_ip_anon on already-anonymized text"):
                    t = T("with-ip-stage", shape=shape, salt_class=slabel, process=proc, variant=variant)
                    t.seg(where)
                    t.new(1, "file", salt, lst, "AS-only FileAnonymizer (teaches the map) " + lab)
                    for n in lst:
                        t.line(1, n + "\n", "form=alone n=%s AS-only FileAnonymizer %s api=file" % (nlabel(n), lab))
                    if variant == "as_numbers+anon_ip":
                        t.new(2, "fileip", salt, lst, "FileAnonymizer(as_numbers, anon_ip=True) " + lab)
                        for fname, text in cases:
                            t.line(2, text, "form=%s api=%s %s" % (fname, variant, lab))
                    elif variant == "as_numbers+undo_ip_anon":
                        t.new(3, "fileundo", salt, lst, "FileAnonymizer(as_numbers, undo_ip_anon=True) " + lab)
                        for fname, text in cases:
                            t.line(3, text, "form=%s api=%s %s" % (fname, variant, lab))
                    else:
                        # undo on text whose addresses really were anonymized before (address-only run, same salt)
                        t.new(4, "iponly", salt, [], "FileAnonymizer(anon_ip=True) without AS numbers " + lab)
                        refs = [(fname, t.line(4, text, "form=%s api=anon_ip-only %s" % (fname, lab))) for fname, text in cases]
                        t.new(5, "fileundo", salt, lst, "FileAnonymizer(as_numbers, undo_ip_anon=True) on already-anonymized text " + lab)
                        for fname, k in refs:
                            t.line(5, {"out": k}, "form=%s api=%s %s" % (fname, variant, lab))
                    traces.append(t)
    return traces


def gen_special(r, thorough):
    traces = []
    for kind in ("class", "file"):
        t = T("special", shape="empty-list", kind=kind)
        t.new(1, kind, "TESTSALT", [], "list=empty")
        for label, text in (("form=config", "router bgp 65000\n"), ("form=no-digits", "no digits\n"), ("form=empty-line", "")):
            t.line(1, text, "%s list=empty api=%s" % (label, kind))
        traces.append(t)
    return traces


def gen_oracle():
    """Hand-written event sequences with known verdicts (NOT executions of netconan): they pin the meaning
    of every R clause and of every don't-care region in the very TLC run that judges the real executions.
    A verdict other than the expected one is a machinery failure."""
    traces = []

    def mk(name, expect, *events):
        t = T("oracle-selftest", name=name)
        t.events = [{"ev": "start"}]
        for e in events:
            t.events.append(e)
            t.labels.append(name)
        t.segments = [["handwritten", []]]
        t.expect = expect
        traces.append(t)

    def new(i, lst, salt="c00", outcome="ok"):
        return {"ev": "new", "inst": i, "salt": salt, "list": [D.digits(n) for n in lst], "outcome": outcome}

    def anon(i, pairs, learn=True, outcome="ok"):
        return {"ev": "anon", "inst": i, "pairs": [[D.digits(n), D.codes(x)] for n, x in pairs], "learn": learn, "outcome": outcome}

    def line(i, a, b, outcome="ok"):
        return {"ev": "line", "inst": i, "in": D.codes(a), "out": D.codes(b), "outcome": outcome}
    L = ["12", "123"]
    teach = anon(1, [("12", "60179"), ("123", "8747")])
    mk("accepted", None, new(1, L), teach, line(1, "12 123 1234 x12x -12. 12\n", "60179 8747 1234 x60179x -60179. 60179\n"),
       line(1, "", ""), line(1, "no digits", "no digits"), anon(1, [("12", "060179")]), line(1, "12", "0060179"))
    mk("listed-left-in-place", (3, "ListedNumberNotReplaced"), new(1, L), teach, line(1, "a12b", "a12b"))
    mk("embedded-changed", (3, "UnlistedNumberChanged"), new(1, L), teach, line(1, "x 1234 y", "x 601794 y"))
    mk("embedded-prefix-changed", (3, "UnlistedNumberChanged"), new(1, L), teach, line(1, "x 912 y", "x 960179 y"))
    mk("line-block", (2, "BlockNotKept"), new(1, L), line(1, "x 12 y", "x 70000 y"))
    mk("pair-block", (2, "BlockNotKept@2"), new(1, L), anon(1, [("123", "0"), ("12", "64512")]))
    mk("pair-block-bulk", (2, "BlockNotKept@2"), new(1, L), anon(1, [("123", "0"), ("12", "64512")], learn=False))
    mk("identity-accepted-then-changed", (3, "NotAFunctionOfSaltAndNumber@1"), new(1, ["64511"]), anon(1, [("64511", "64511")]), anon(1, [("64511", "5")]))
    mk("bulk-not-single-valued", (2, "NotAFunctionOfSaltAndNumber@3"), new(1, L), anon(1, [("12", "5"), ("123", "6"), ("12", "7")], learn=False))
    mk("two-instances-same-salt", (4, "NotAFunctionOfSaltAndNumber@1"), new(1, L), teach, new(2, ["12", "99"]), anon(2, [("12", "60178")]))
    mk("two-salts-free", None, new(1, L), teach, new(2, L, salt="c01"), anon(2, [("12", "1")]), new(3, L, salt="f00"), line(3, "12", "2"))
    mk("other-text", (3, "OtherTextChanged"), new(1, L), teach, line(1, "x 12 y", "X 60179 y"))
    mk("trailing-newline-lost", (3, "StructureChanged"), new(1, L), teach, line(1, "x 12\n", "x 60179"))
    mk("number-deleted", (3, "StructureChanged"), new(1, L), teach, line(1, "x 12 y", "x  y"))
    mk("replacement-not-a-number", (2, "ReplacementNotANumber@1"), new(1, L), anon(1, [("12", "AS7")]))
    mk("constructor-refused", (1, "ConstructorRefusedValidList"), new(1, L, outcome="other:KeyError"))
    mk("constructor-valueerror", (1, "ConstructorRefusedValidList"), new(1, L, outcome="ValueError"))
    mk("empty-list-refused-dontcare", None, new(1, [], outcome="ValueError"), line(1, "x 1 y", "anything"))
    mk("empty-list-live", (3, "UnlistedNumberChanged"), new(1, []), line(1, "x 1 y", "x 1 y"), line(1, "x 1 y", "x 2 y"))
    mk("line-exception", (2, "Exception"), new(1, L), line(1, "x 1 y", "", outcome="other:KeyError"))
    mk("digit-beyond-dot-in-scope", (4, "ListedNumberNotReplaced"), new(1, L), teach, line(1, "as 1.12.7 x 3:12/4 12.5", "as 1.60179.7 x 3:60179/4 60179.5"),
       line(1, "as 1.12 x", "as 1.12 x"))
    mk("digit-beyond-dot-other-run", (3, "UnlistedNumberChanged"), new(1, L), teach, line(1, "as 1.12 x", "as 9.60179 x"))
    mk("dontcare-foreign-digit", None, new(1, L), teach, line(1, "\u0663" + "12 12\u00b2", "\u066312 12\u00b2"))
    mk("dontcare-leading-zeros", None, new(1, L), teach, line(1, "012 0012", "012 777"))
    mk("dot-at-end-in-scope", (3, "ListedNumberNotReplaced"), new(1, L), teach, line(1, "AS 12.", "AS 12."))
    mk("range-end", (2, "BlockNotKept@2"), new(1, ["4294967295"]), anon(1, [("4294967295", "4200000000"), ("4294967295", "4294967296")], learn=False))
    mk("block-edges-ok", None, new(1, ["0", "64511", "64512", "65535", "65536", "4199999999", "4200000000"]),
       anon(1, [("0", "64511"), ("64511", "0"), ("64512", "65535"), ("65535", "64512"), ("65536", "4199999999"),
                ("4199999999", "65536"), ("4200000000", "4294967295")]))
    mk("block-edge-low", (2, "BlockNotKept@1"), new(1, ["64512"]), anon(1, [("64512", "64511")]))
    mk("block-edge-high", (2, "BlockNotKept@1"), new(1, ["4199999999"]), anon(1, [("4199999999", "4200000000")]))
    mk("unknown-instance", (1, "Exception"), anon(7, [("1", "1")]))
    A = [D.ADDR]
    raw = lambda a, b: {"ev": "line", "inst": 1, "in": a, "out": b, "outcome": "ok"}
    mk("address-placeholder-ok", None, new(1, ["64999"]), anon(1, [("64999", "65000")]),
       raw(D.codes("neighbor ") + A + D.codes(" remote-as 64999\n"), D.codes("neighbor ") + A + D.codes(" remote-as 65000\n")),
       raw(D.codes_projected("neighbor 10.2.3.4 2001:db8::1/64 remote-as 64999;\n"), D.codes_projected("neighbor 77.1.2.3 2a01:1::/64 remote-as 65000;\n")))
    mk("address-placeholder-number-kept", (3, "ListedNumberNotReplaced"), new(1, ["64999"]), anon(1, [("64999", "65000")]),
       raw(D.codes_projected("neighbor 10.2.3.4 remote-as 64999\n"), D.codes_projected("neighbor 77.1.2.3 remote-as 64999\n")))
    mk("address-placeholder-lost", (3, "OtherTextChanged"), new(1, ["64999"]), anon(1, [("64999", "65000")]),
       raw(D.codes_projected("neighbor 10.2.3.4 remote-as 64999\n"), D.codes_projected("neighbor x remote-as 65000\n")))
    return traces


# --------------------------------------------------------------------------
# verdicts
# --------------------------------------------------------------------------
def describe(t, k, clause):
    """(stable key, human description) of the rejected event k of trace t."""
    e = t.events[k]
    label = t.labels[k - 1]
    base, _, idx = clause.partition("@")
    if e["ev"] == "anon":
        if idx:
            j = int(idx) - 1
            n, rr = e["pairs"][j]
            label = label[j]
            what = "anonymize(%r) returned %r" % (decode(n), decode(rr))
        else:
            label = label[0] if label else ""
            what = "anonymize(...) raised %s" % (e.get("what", e["outcome"]),)
    elif e["ev"] == "line":
        if e["outcome"] != "ok":
            what = "line %r raised %s" % (decode(e["in"]), e.get("what", e["outcome"]))
            label += " exception=%s" % e["outcome"].split(":")[-1]
        else:
            what = "line %r became %r" % (e.get("raw_in", decode(e["in"])), e.get("raw_out", decode(e["out"])))
            if "raw_in" in e:
                what += " (judged with address tokens projected: %r -> %r)" % (decode(e["in"]), decode(e["out"]))
    elif e["ev"] == "new":
        what = "constructor refused list %s: %s" % ([decode(n) for n in e["list"]][:10], e["outcome"])
        label += " exception=%s" % e["outcome"].split(":")[-1]
    else:
        what = json.dumps(e)[:300]
    key = "family=%s clause=%s %s" % (t.family, base, label)
    news = [t.events[i] for i in range(k, 0, -1) if t.events[i]["ev"] == "new"]
    try:
        salt = bytes.fromhex(news[0]["salt"][1:]).decode("utf-8") if news else None
    except ValueError:
        salt = None             # opaque one-off salt id (reported salt could not be observed)
    return key, "%s (R clause %s; most recent salt %r; %s)" % (what, base, salt, label)


def replay_case(t, k, clause):
    segs = t.segments
    if t.family == "bulk":
        # the constructor and the failing chunk only
        flat = [op for _, ops in segs for op in ops]
        segs = [["here", [flat[0], flat[k - 1]]]]
    return {"family": t.family, "meta": t.meta, "segments": segs, "event": k, "clause": clause,
            "rejected_event": {kk: (v if not isinstance(v, list) or len(v) < 80 else v[:80]) for kk, v in t.events[k].items()}}


def judge(ck, traces):
    oracle = gen_oracle()
    rejected, states = validate_traces("AsNumTrace", "AsNumTrace.cfg", [t.events for t in traces + oracle])
    ck.traces += len(traces)
    ck.events += sum(len(t.events) for t in traces)
    ck.notes["trace_states"] = ck.notes.get("trace_states", 0) + states
    for oi, t in enumerate(oracle):
        got = rejected.pop(len(traces) + oi, None)
        if got != t.expect:
            raise MachineryError("oracle self-test %r: expected verdict %r, TLC said %r" % (t.meta["name"], t.expect, got))
    ck.notes["oracle_selftest_traces_with_expected_verdicts"] = len(oracle)
    for ti, (k, clause) in sorted(rejected.items()):
        t = traces[ti]
        key, what = describe(t, k, clause)
        ck.violation(key, what, replay_case(t, k, clause))
    return rejected


# --------------------------------------------------------------------------
# model checking
# --------------------------------------------------------------------------
def mc_cfg(kind, maxlen=0, maxlist=1, numlen=1, invariants=("MImpliesR", "RDeterminate", "LearnsMap")):
    b = {"arith": ("SmallBounds", "ListsArith", "LinesArith", "HashesArith"),
         "scan": ("DecBounds", "ListsScan", "LinesScan", "HashesScan"),
         "scan2": ("DecBounds", "ListsScan", "LinesScan", "HashesScan2")}[kind]
    return ("CONSTANTS\n  Bounds <- %s\n  Lists <- %s\n  Lines <- %s\n  Hashes <- %s\n  MaxLen = %d\n  MaxList = %d\n  NumLen = %d\n"
            "SPECIFICATION Spec\n%sCHECK_DEADLOCK FALSE\n"
            % (b + (maxlen, maxlist, numlen, "".join("INVARIANT %s\n" % i for i in invariants))))


REPL_DEVS = ["SizePlusOne", "BoundaryLe", "ModNextBegin", "NoBlockOffset"]
SCAN_DEVS = ["NoLookbehind", "NoLookahead", "AtomicAlternation", "FirstMatchOnly", "DigitBeyondPunct", "AvoidCollisions"]


def start_models(thorough):
    """Launch all TLC design checks in the background; returns futures."""
    ex = concurrent.futures.ThreadPoolExecutor(max_workers=12)
    jobs = []

    def submit(name, what, cfgtext, workers, expect_violation=None, heap="4g"):
        cfgname = "gen_%s.cfg" % name
        fut = ex.submit(tlc.run, "AsNumMC", cfgname, workers=workers, extra={cfgname: cfgtext}, heap=heap, timeout=3000)
        jobs.append((name, what, fut, expect_violation))
    submit("asnum_arith", "M => R and R determinate: table (0,4,6,12,16), every n in 0..15 alone and between letters, every hash value 0..40",
           mc_cfg("arith"), 4)
    if thorough:
        submit("asnum_scan_l6", "M => R and R determinate: decimal table, every ordered list of <=2 distinct numbers over {1,2} with <=3 digits, "
               "every line of <=6 characters over {1,2,x}, hashes {11,99}", mc_cfg("scan2", 6, 2, 3), 12, heap="8g")
        submit("asnum_scan_3lists", "same with every ordered list of <=3 distinct numbers of <=2 digits (concatenation-closed lists included), lines <=5, hashes {11,99}", mc_cfg("scan2", 5, 3, 2), 8, heap="8g")
    else:
        submit("asnum_scan", "M => R and R determinate: decimal table, every ordered list of <=2 distinct numbers over {1,2} with <=2 digits, "
               "every line of <=5 characters over {1,2,x}, hashes {11,99}", mc_cfg("scan2", 5, 2, 2), 12)
    for d in REPL_DEVS:
        submit("asnum_dev_" + d, "vacuity guard: deviation %s must be rejected by R" % d,
               mc_cfg("arith", invariants=("DeviationInvisible_" + d,)), 1, expect_violation=d, heap="1g")
    for d in SCAN_DEVS:
        submit("asnum_dev_" + d, "vacuity guard: deviation %s must be rejected by R" % d,
               mc_cfg("scan", 4, 2, 2, invariants=("DeviationInvisible_" + d,)), 1, expect_violation=d, heap="1g")
    return ex, jobs


def finish_models(ck, ex, jobs):
    seen = []
    for name, what, fut, expect in jobs:
        res = fut.result()
        if expect is None:
            tlc.require_ok(res, name)
            ck.states += res.distinct
            ck.transitions += res.generated
            ck.models.append({"module": "AsNumMC", "cfg": name, "what": what, **res.summary()})
        else:
            if res.invariant_violated != "DeviationInvisible_" + expect:
                raise MachineryError("vacuity guard: deviation %s was not rejected by R in the model:\n%s" % (expect, res.out[-1500:]))
            seen.append(expect)
    ex.shutdown()
    ck.notes["model_deviations_rejected_by_R"] = seen


# --------------------------------------------------------------------------
COLLISION_STATS = []


def build_traces(pid, tier):
    thorough = tier == "thorough"
    traces = []
    traces += gen_seam(thorough)
    traces += gen_predicted(thorough)
    traces += gen_functional(rng(pid, "functional"), thorough)
    traces += gen_lines(rng(pid, "lines"), thorough)
    traces += gen_nosalt(rng(pid, "nosalt"), thorough)
    traces += gen_with_ip(rng(pid, "with-ip"), thorough)
    traces += gen_cli(rng(pid, "cli"), thorough)
    COLLISION_STATS[:] = []
    traces += gen_collisions(rng(pid, "collisions"), thorough, COLLISION_STATS)
    traces += gen_special(rng(pid, "special"), thorough)
    traces += gen_bulk(rng(pid, "bulk"), thorough)
    return traces


def run(pid, tier):
    ck = Check(pid, tier)
    thorough = tier == "thorough"
    ck.assumptions = [
        "the block table used by R is the one in the property statement (AsNum.tla RealBounds, checked against 16 hand-written values at TLC start-up)",
        "constructor signatures AsNumberAnonymizer(list of decimal strings, salt) and FileAnonymizer(anon_pwd, anon_ip, salt=, as_numbers=) keep their meaning",
        "when no salt is supplied, the salt FileAnonymizer reports (public attribute .salt, else the string argument / quoted token of its WARNING record) "
        "is the salt in use; for that family the direct AsNumberAnonymizer(list, S) shares FileAnonymizer's salt name space",
        "runs with the address stage on: address tokens (white-space delimited, optional '/len' and trailing ',' ';', accepted by ipaddress.ip_address) of input and output "
        "are projected to one placeholder code before TLC judges the line; listed numbers there have 5+ digits so they cannot be part of an address",
        "command line: main(['-i', file, '-o', file, '-s', salt, '-n', 'n1,n2'] or ['-c', cfg with as-numbers=n1,n2]) run in a fresh interpreter; "
        "a run that returns without writing the output file is the event outcome NoOutput (never accepted for a valid list)",
        "TLC/SANY and the text -> character-code projection are trusted; the md5 seam and the md5(salt+number) prediction only steer coverage (drift, never verdicts)",
        "don't-care (accepted either way, not generated): spellings with leading zeros, non-ASCII numeric characters, "
        "list entries that are not canonical decimals in 0..4294967295, anonymize(n) for an unlisted n, an empty list refused with ValueError at construction; "
        "a replacement equal to the original number is accepted (the statement does not forbid it)",
    ]
    ex, jobs = start_models(thorough)          # TLC design checks run in the background while the code is driven
    traces = materialize(build_traces(pid, tier), ck)

    # M-drift: the implementation model predicts every replacement exactly
    drift = checked = 0
    for t in traces:
        for msg in t.drift:
            if len(ck.drift) < 10:
                ck.drift.append(msg)
        for k, want in getattr(t, "pred", []):
            e = t.events[k]
            if e["ev"] == "anon" and e["outcome"] == "ok" and e["pairs"]:
                checked += 1
                got = decode(e["pairs"][0][1])
                if got != want:
                    drift += 1
                    if len(ck.drift) < 10:
                        ck.drift.append({"case": t.labels[k - 1][0], "model": want, "code": got})
    ck.notes["m_model_predictions_compared"] = checked
    ck.notes["m_model_predictions_differing"] = drift

    # coverage accounting
    fam = {}
    pairs = lines = 0
    residues = set()
    contexts = set()
    for t in traces:
        fam[t.family] = fam.get(t.family, 0) + 1
        for e, lab in zip(t.events[1:], t.labels):
            if e["ev"] == "anon":
                pairs += len(e["pairs"])
                for p, pl in zip(e["pairs"], lab):
                    if t.family in ("boundary-x-hash", "predicted-salt"):
                        residues.add(pl)
                        ck.count((t.family, pl))
                    elif t.family in ("functional", "generated-salt", "collisions"):
                        ck.count((t.family, pl))
                    else:
                        ck.count(None)
            elif e["ev"] == "line":
                lines += 1
                ck.count((t.family, lab))
                if lab.startswith("form=context"):
                    contexts.add(lab.split(" list=")[0])
    ck.notes["traces_by_family"] = fam
    ck.notes["collision_lists"] = COLLISION_STATS
    if COLLISION_STATS and not any(c["colliding_pairs_observed"] for c in COLLISION_STATS):
        ck.drift.append("no two numbers of a block share a replacement under any salt (the implementation is injective per block): "
                        "the list-independence family ran without collisions")
    ck.notes["number_replacement_pairs_judged"] = pairs
    ck.notes["line_events_judged"] = lines
    ck.notes["boundary_x_hash_classes"] = len(residues)
    ck.notes["distinct_left_right_contexts"] = len(contexts)

    judge(ck, traces)
    finish_models(ck, ex, jobs)

    t0 = [t for t in traces if t.family == "boundary-x-hash"][3]
    ck.sample({"family": t0.family, "labels": [l for l in t0.labels[:4]],
               "events": [{k: v for k, v in e.items()} for e in t0.events[1:5]]})
    tl = [t for t in traces if t.family == "lines"][4]
    ck.sample({"family": "lines", "list": tl.meta, "cases": [{"label": l, "in": decode(e["in"]), "out": decode(e["out"])}
                                                             for e, l in list(zip(tl.events[1:], tl.labels))[3:9] if e["ev"] == "line"]})
    tf = [t for t in traces if t.family == "functional"][0]
    ck.sample({"family": "functional", "operations": [l if isinstance(l, str) else l[0] for l in tf.labels][:40:3]})
    ck.rule = ("cases = (i) <boundary-or-inner number, hash class> pairs on the real class (hash injected through the md5 seam or salt predicted by the M-model), "
               "(ii) <line form, context or wrap, list shape, api> line cases, (iii) <number class, instance/process/order situation, salt class> functional cases; "
               "distinct by their data-free label; bulk random pairs are counted as evaluations only")
    ck.exhaustive = False
    return ck.finish()


def replay(pid, path):
    """Re-run the operations of a replay file on the current tree and judge them again."""
    case = json.load(open(path))["case"]
    t = T(case["family"], **case.get("meta", {}))
    for where, ops in case["segments"]:
        t.seg(tuple(where) if isinstance(where, list) else where)
        for op in ops:
            t._op(op, ["replay"] * len(op[2]) if op[0] == "anon" else "replay")
    materialize([t])
    rejected, _ = validate_traces("AsNumTrace", "AsNumTrace.cfg", [t.events], shards=1)
    if rejected:
        k, clause = rejected[0]
        print("REPLAY: event %d rejected, clause %s: %s" % (k, clause, describe(t, k, clause)[1]))
        return 1
    print("REPLAY: accepted")
    return 0


if __name__ == "__main__":
    common.main_wrapper(lambda: run("C11", sys.argv[1] if len(sys.argv) > 1 else "quick"))
