"""C07, C08, C09: secret substitution.

TLC generates (SecretForms.tla) every recognised line form x alternatives x
format class x wrapping x indentation as ABSTRACT lines, and (PwdLookup.tla)
every history of secret occurrences over a small universe incl. $9$ aliases.
The harness concretizes them (own generators / codecs), runs the real code
(replace_matching_item and FileAnonymizer.anonymize_io with only the secret
stage on: composition with other stages is C15's business), projects every
secret occurrence to an event and TLC judges it against Secrets.tla.
"""
import io
import json
import logging
import os
import sys

import common
import secretgen as G
import tlc
from common import Check, rng, validate_traces
from netconan import anonymize_files as AF
from netconan import sensitive_item_removal as SIR
from netconan.default_reserved_words import default_reserved_words

CLAUSES = {
    "C07": ["Replaced", "Sameoutput", "Samelog"],
    "C08": ["Consistent", "Injective"],
    "C09": ["ClassKept", "ContextKept"],
}


class LogCapture(logging.Handler):
    def __init__(self):
        super().__init__(level=logging.INFO)
        self.records = []

    def emit(self, record):
        try:
            self.records.append("%s %s" % (record.levelname, record.getMessage()))
        except Exception as e:
            self.records.append("%s <unformattable %r>" % (record.levelname, e))


def with_logs(fn):
    root = logging.getLogger()
    h = LogCapture()
    old = root.level
    root.addHandler(h)
    root.setLevel(logging.INFO)
    try:
        res = fn()
    finally:
        root.removeHandler(h)
        root.setLevel(old)
    return res, h.records


_regexes = None


def regexes():
    global _regexes
    if _regexes is None:
        _regexes = SIR.generate_default_sensitive_item_regexes()
    return _regexes


def keyword_fragments(words_of_line, secret_indexes, reserved):
    """Sensitive words that are parts of the line's own keywords (not secrets, not reserved words): with them listed,
    the word stage rewrites keywords AFTER the secrets were recognised - it must not stop a form from being recognised."""
    out = []
    for i, w in enumerate(words_of_line):
        core = "".join(ch for ch in w if ch.isalpha())
        if i in secret_indexes or len(core) < 5 or w.lower() in reserved or core.lower() in reserved:
            continue
        out.append(core[:5] if len(core) > 6 else core[1:])
    return sorted(set(out))


def run_lines(lines, salt, via, words=None):
    """One run over the lines (shared lookup).  Returns (outputs or exception text, logs)."""
    def go():
        outs = []
        if via == "rmi":
            lookup = {}
            for ln in lines:
                outs.append(SIR.replace_matching_item(regexes(), ln, lookup, salt))
        else:
            # "io": secrets only; "io-undo": secrets together with undoing IP anonymization (an option combination)
            # "io-words": secrets together with sensitive words (an option combination)
            fa = AF.FileAnonymizer(anon_pwd=True, anon_ip=False, salt=salt or "u", undo_ip_anon=True) if via == "io-undo" \
                else AF.FileAnonymizer(anon_pwd=True, anon_ip=False, salt=salt, sensitive_words=list(words)) if via == "io-words" and words \
                else AF.FileAnonymizer(anon_pwd=True, anon_ip=False, salt=salt)
            for ln in lines:
                buf = io.StringIO()
                fa.anonymize_io(io.StringIO(ln + "\n"), buf)
                o = buf.getvalue()
                outs.append(o[:-1] if o.endswith("\n") else o + "<no newline>")
        return outs
    try:
        return with_logs(go)
    except Exception as e:
        return "EXC %s: %s" % (type(e).__name__, e), []


def gen_abstract_lines(ck, breadth):
    out = os.path.join(tlc.subdir("gen"), "forms_%d.ndjson" % os.getpid())
    if os.path.exists(out):
        os.remove(out)
    cfg = 'CONSTANTS Breadth = "%s"\nSPECIFICATION Spec\nINVARIANT WellFormed\nINVARIANT Emit\nCHECK_DEADLOCK FALSE\n' % breadth
    r = tlc.require_ok(tlc.run("SecretForms", "forms.cfg", workers=16, env={"OUT_FILE": out}, extra={"forms.cfg": cfg}), "SecretForms")
    ck.states += r.distinct
    ck.transitions += r.generated
    ck.models.append({"module": "SecretForms", "cfg": "Breadth=" + breadth, "what": "abstract secret-bearing lines: form x alternatives x class x wrap x lead", **r.summary()})
    lines = sorted(set(open(out).read().splitlines()))
    os.remove(out)
    return [json.loads(x) for x in lines]


def stratified(r, als, per_form):
    by = {}
    for a in als:
        by.setdefault((a["form"], a["cls"][0], json.dumps(a["toks"])), []).append(a)
    out = []
    for k in sorted(by):
        v = by[k]
        out += v if len(v) <= per_form else r.sample(v, per_form)
    return out


def describe(al):
    return "form=%s cls=%s wrap=%s mode=%s" % (al["form"], "+".join(c for c in al["cls"] if c != "none"), al["wrap"], al["mode"])


def finding_key(al, conc, clause):
    """Stable key of a rejected abstract line: form, class, clause, and the two grammar features
    behind the known ambiguity findings (what follows the secret; optional type field present)."""
    s = conc["secrets"][0]
    after = "word" if s["index"] < len(conc["words"]) - 1 else "end"
    if len(conc["secrets"]) > 1:
        after = "second-secret"
    toks = [t.get("lit", "") for t in al["toks"]]
    opt = "sha512" if "sha512" in toks else ("level" if any("level" in t for t in toks) else "-")
    if len(conc["secrets"]) > 1:
        # two-secret forms: which optional words surround the second secret
        opt = "+".join(t.replace(" ", "") for t in toks if t in ("aes", "aes 128", "3des", "des", "something")) or "-"
    typed = "typed" if any(t in ("0", "5", "6", "7", "8", "ENC") for t in toks) else "untyped"
    first = toks[0].split(" ")[0] if toks and toks[0] else (toks[1].split(" ")[0] if len(toks) > 1 else "")
    if al["form"] == "H1":
        first = "-".join(toks[0].split(" ")[:3])
    kw = ([w for t in toks for w in t.split(" ") if w in ("password", "passwd", "secret")] + ["-"])[0]
    return "form=%s first=%s kw=%s cls=%s clause=%s after=%s %s opt=%s" % (al["form"], first, kw, s["cls"], clause, after, typed, opt)


# ---------------------------------------------------------------------------
def forms_workload(ck, pid, tier, salts):
    thorough = tier == "thorough"
    r = rng(pid, "forms")
    als = gen_abstract_lines(ck, "all" if thorough else "pairwise")
    ck.notes["abstract_lines_generated"] = len(als)
    als = stratified(r, als, 6 if thorough else 2)
    if pid == "C07":
        # $9$-looking values that do not decrypt are secrets too: their content must not show in output or logs
        extra = [dict(a, cls=["juniper9bad", a["cls"][1]]) for a in als if a["cls"][0] == "juniper9" and a["eq"] == "one"]
        als = als + extra[:: 3]
    ck.notes["abstract_lines_run"] = len(als)
    reserved = set(default_reserved_words)
    traces, meta = [], []
    for ai, al in enumerate(als):
        salt = salts[ai % len(salts)]
        # (io-undo also rewrites addresses, so it is used where only the paired outputs are compared)
        via = ["io", "rmi", "rmi", "io-undo" if pid == "C07" else "io", "rmi", "io-words" if pid == "C07" else "rmi", "rmi", "rmi"][ai % 8]
        rf = rng(pid, "fill", ai)
        variants = []
        frags = None
        for v in range(2 if pid == "C07" else 1):
            conc = G.concretize(al, rng(pid, "fill", ai), rng(pid, "sec", ai, v), reserved)
            if pid == "C07" and ai % 16 in (6, 14):
                # "any indentation": a very long run of blanks in front of the line does not hide it from the scan
                pad = " " * (2100 if ai % 16 == 6 else 4200)
                conc = dict(conc, line=pad + conc["line"], lead=pad + conc["lead"])
            if pid in ("C07", "C09") and ai % 32 == 9 and conc["secrets"]:
                # a one-line dump: the secret lies across the 64 KiB boundary of the line
                k0 = conc["secrets"][0]["index"]
                pos = len(conc["lead"]) + len(" ".join(conc["words"][:k0])) + (1 if k0 else 0)
                pad = " " * max(0, 65536 - 3 - pos)
                conc = dict(conc, line=pad + conc["line"], lead=pad + conc["lead"])
                via = "io"
            if pid == "C09" and ai % 16 == 11:
                # indentation made of other white space (no-break / ideographic / em space, form feed) is text before the secret too
                ws = ["\u00a0", "\u3000 ", " \u2003", "\x0c", "\u00a0\t"][ai // 16 % 5]
                conc = dict(conc, line=ws + conc["line"], lead=ws + conc["lead"])
            if frags is None:
                frags = keyword_fragments(conc["words"], {x["index"] for x in conc["secrets"]}, {w.lower() for w in reserved})
            outs, logs = run_lines([conc["line"]], salt, via, words=frags)
            variants.append((conc, outs, logs))
        ev = [{"ev": "run", "clauses": CLAUSES[pid]}]
        info = [None]                      # info[i] describes ev[i]
        for conc, outs, logs in variants:
            if isinstance(outs, str):
                ev.append({"ev": "exc", "what": outs})
                info.append((conc["line"], outs))
            else:
                for sdesc, e in zip(conc["secrets"], G.project(conc, outs[0], al["mode"])):
                    e["ev"] = "sec"
                    e["key"] = G.secret_key(sdesc["value"])
                    ev.append(e)
                    info.append((conc["line"], outs[0]))
            ev.append({"ev": "run", "clauses": CLAUSES[pid]})       # each variant is its own run
            info.append(None)
        if pid == "C07" and len(variants) == 2 and not any(isinstance(v[1], str) for v in variants):
            ev.append({"ev": "pair", "what": "output", "a": variants[0][1][0], "b": variants[1][1][0]})
            info.append(("paired inputs %r / %r" % (variants[0][0]["line"], variants[1][0]["line"]), "%r vs %r" % (variants[0][1][0], variants[1][1][0])))
            ev.append({"ev": "pair", "what": "log", "a": "\n".join(variants[0][2]), "b": "\n".join(variants[1][2])})
            info.append(("paired logs", "%r vs %r" % (variants[0][2], variants[1][2])))
        traces.append(ev)
        meta.append({"al": al, "conc": variants[0][0], "info": info, "salt": salt, "via": via})
        ck.count((al["form"], tuple(al["cls"]), al["wrap"], al["lead"], json.dumps(al["toks"])))
    return traces, meta


def sequences_workload(ck, pid, tier, als):
    """C07 over multi-line runs: sequences of 3 abstract lines sharing one run, concretized twice with the same
    equality pattern among the secrets (line 3 repeats the secret of line 1 in half of the cases)."""
    thorough = tier == "thorough"
    r = rng(pid, "seq")
    reserved = set(default_reserved_words)
    one = [a for a in als if a["eq"] == "one" and a["mode"] == "replace" and a["form"] not in ("A1", "A2", "H1")]
    traces, meta = [], []
    for si in range(1500 if thorough else 250):
        trip = [r.choice(one) for _ in range(3)]
        hexes = [a for a in one if a["cls"][0] == "hex"]
        casevar = si % 10 == 3 and len(hexes) > 1
        if casevar:
            # variant 0: line 3 carries the OTHER-CASE spelling of line 1's hexadecimal secret (a different secret);
            # variant 1: two unrelated hexadecimal secrets - the same equality pattern, so the same output
            trip[0], trip[2] = r.choice(hexes), r.choice(hexes)
        same13 = si % 2 == 0 and trip[0]["cls"][0] == trip[2]["cls"][0] and trip[0]["slen"] == trip[2]["slen"]
        variants = []
        for v in range(2):
            concs, used = [], set()
            for j, al in enumerate(trip):
                # the same equality pattern in both variants: secrets of different lines are pairwise different
                cj = G.concretize(al, rng(pid, "seqfill", si, j), rng(pid, "seqsec", si, j, v), reserved | used)
                used |= {x["value"] for x in cj["secrets"]}
                concs.append(cj)
            lines = [c["line"] for c in concs]
            if casevar and v == 0:
                o3 = concs[2]["secrets"][0]["value"]
                n3 = concs[0]["secrets"][0]["value"].swapcase()
                if n3 != concs[0]["secrets"][0]["value"] and G.classify(n3)[0] == "hex" and n3 not in used:
                    w3 = list(concs[2]["words"])
                    k3 = concs[2]["secrets"][0]["index"]
                    w3[k3] = w3[k3].replace(o3, n3, 1)
                    lines[2] = concs[2]["lead"] + " ".join(w3)
            if same13:
                # line 3 carries the same secret value as line 1 (equality pattern kept in both variants)
                old = concs[2]["secrets"][0]["value"]
                new = concs[0]["secrets"][0]["value"]
                w3 = list(concs[2]["words"])
                k3 = concs[2]["secrets"][0]["index"]
                w3[k3] = w3[k3].replace(old, new, 1)
                lines[2] = concs[2]["lead"] + " ".join(w3)
            outs, logs = run_lines(lines, ["TESTSALT", "", "Qx"][si % 3], "rmi" if si % 2 else "io")
            variants.append((lines, outs, logs))
        ev = [{"ev": "run", "clauses": CLAUSES[pid]}]
        info = [None]
        if any(isinstance(v[1], str) for v in variants):
            ev.append({"ev": "exc", "what": str([v[1] for v in variants if isinstance(v[1], str)][0])})
            info.append(("sequence", repr(variants[0][0])))
        else:
            ev.append({"ev": "pair", "what": "output", "a": "\n".join(variants[0][1]), "b": "\n".join(variants[1][1])})
            info.append(("paired sequences %r / %r" % (variants[0][0], variants[1][0]), "%r vs %r" % (variants[0][1], variants[1][1])))
            ev.append({"ev": "pair", "what": "log", "a": "\n".join(variants[0][2]), "b": "\n".join(variants[1][2])})
            info.append(("paired logs", "%r vs %r" % (variants[0][2], variants[1][2])))
        traces.append(ev)
        meta.append({"key": "sequence forms=%s same13=%s" % ("+".join(a["form"] for a in trip), same13), "lines": variants[0][0], "info": info,
                     "seq": [describe(a) for a in trip], "trip": trip, "concs": None})
        ck.count(("seq", si))
    return traces, meta


def judge(ck, pid, traces, meta, label):
    validate_traces("SecretTrace", "SecretTrace.cfg", traces, max_events_per_shard=6000)
    ck.traces += len(traces)
    ck.events += sum(len(t) for t in traces)
    for ti, lst in sorted(common.all_rejections.items()):
        m = meta[ti]
        for k, clause in lst:
            e = traces[ti][k]
            if "al" in m:
                key = "%s %s" % (label, finding_key(m["al"], m["conc"], clause))
                inf = m["info"][k] if 0 <= k < len(m["info"]) else None
                what = "%s: %s rejected by clause %s: %s (salt %r via %s)" % (label, describe(m["al"]), clause, inf, m["salt"], m["via"])
            elif "seq" in m:
                # a rejected pair of sequences: key by the known ambiguity classes of its lines, else by the forms
                cl = []
                for a in m["trip"]:
                    toks = [t.get("lit", "") for t in a["toks"]]
                    kw = any(w in ("password", "passwd") for t in toks for w in t.split(" "))
                    typed = any(t in ("0", "5", "6", "7", "8", "ENC") for t in toks)
                    tail = toks and (toks[-1] != "" and "sec" not in a["toks"][-1])
                    if a["cls"][0] == "numeric" and kw and not typed and tail:
                        cl.append("D11")
                    if a["form"] == "P3" and "sha512" in toks and "password" in toks:
                        cl.append("D12-password-sha512")
                key = "%s clause=%s lines=%s" % (label, clause, "+".join(sorted(set(cl))) or m["key"])
                what = "%s: clause %s: %s" % (label, clause, m["info"][k] if k < len(m["info"]) else "")
            else:
                key = "%s clause=%s %s" % (label, clause, m.get("key", ""))
                if label == "long-run" and clause == "ClassKept" and e.get("cls") in ("numeric", "hex") and "$9$" not in e.get("orig", ""):
                    # finding D14 inside a long run: the clear all-digit / hexadecimal value was first seen in the run as a $9$ string
                    first = next((x for x in traces[ti][:k] if x.get("ev") == "sec" and x.get("key") == e.get("key")), None)
                    if first is not None and "$9$" in first.get("orig", ""):
                        key = "long-run clause=ClassKept history-class=%s-secret-first-seen-as-$9$-then-clear" % e["cls"]
                what = "%s: clause %s: %s" % (label, clause, json.dumps({a: e[a] for a in e if a not in ("ctxin", "ctxout")})[:400])
                if "lines" in m:
                    what += " lines=%r" % (m["lines"],)
            ck.violation(key, what, {"label": label, "meta": m, "event": e, "clause": clause, "trace": traces[ti][: k + 1]})


# ---------------------------------------------------------------------------
LINE_FORMS = ["password {}", "username bob secret {}", "snmp-server community {}", " key {}", "set password {}",
              "tacacs-server key {}", "enable secret {}", "ip ftp password {}", "domain-password {}", "crypto isakmp key {} address 1.1.1.1"]


def history_workload(ck, pid, tier):
    """Replay of TLC-generated occurrence histories (PwdLookup.tla)."""
    thorough = tier == "thorough"
    r = rng(pid, "hist")
    out = os.path.join(tlc.subdir("gen"), "hist_%d.ndjson" % os.getpid())
    hist = []
    for depth in ([1, 2, 3, 4] if thorough else [1, 2, 3]):
        if os.path.exists(out):
            os.remove(out)
        cfg = "CONSTANTS MaxHist = %d\nSPECIFICATION Spec\nINVARIANT RInjective\nPROPERTY StepOK\nINVARIANT Emit\nCHECK_DEADLOCK FALSE\n" % depth
        res = tlc.require_ok(tlc.run("PwdLookup", "h.cfg", workers=16, env={"OUT_FILE": out}, extra={"h.cfg": cfg}), "PwdLookup")
        if depth == (4 if thorough else 3):
            ck.states += res.distinct
            ck.transitions += res.generated
            ck.models.append({"module": "PwdLookup", "cfg": "MaxHist=%d" % depth,
                              "what": "M => Secrets (Consistent, Injective) over all histories of secret occurrences incl. $9$ aliases, malformed $9$, reserved values", **res.summary()})
        hist += [json.loads(x)["hist"] for x in sorted(set(open(out).read().splitlines()))]
        os.remove(out)
    # the predicted class break (D14) must be a behaviour of M
    res = tlc.run("PwdLookup", "PwdLookupClass.cfg", workers=4)
    ck.notes["model_predicts_class_break_history"] = (res.invariant_violated == "ClassKept")
    ck.notes["histories_generated"] = len(hist)
    plain = {"A": "918273645", "B": "S3cr3tValuXz", "R": "interface"}
    traces, meta = [], []
    for hi, h in enumerate(hist):
        salt = ["TESTSALT", "", "#x", "Qz"][hi % 4]
        lines, occs = [], []
        for oi, (o, reply) in enumerate(h):
            p, enc = o
            if enc == "clear" or enc == "resv":
                val = plain[p]
            elif enc in ("c1", "c2"):
                val = G.j9_encode(plain[p], G.ALPHA[(7 * hi + (3 if enc == "c1" else 41)) % 65])
            else:
                val = "$9$" + ["ab", "abc_defgh", "Qzzzz"][hi % 3] + p.lower()     # starts like $9$, does not decrypt
            wrap = ["bare", "dq", "sq", "semi", "dqsemi", "bare"][(hi + oi) % 6]
            hd, tl = G.WRAP[wrap]
            form = LINE_FORMS[(hi + 3 * oi) % len(LINE_FORMS)]
            lines.append(form.format(hd + val + tl))
            occs.append({"value": val, "enc": enc, "head": hd, "tail": tl, "form": form, "reply": reply})
        outs, logs = run_lines(lines, salt, "rmi" if hi % 3 else "io")
        ev = [{"ev": "run", "clauses": CLAUSES[pid]}]
        if isinstance(outs, str):
            ev.append({"ev": "exc", "what": outs})
        else:
            for ln, o, oc in zip(lines, outs, occs):
                if oc["enc"] == "resv":
                    continue
                conc = {"words": ln.split(), "lead": ln[: len(ln) - len(ln.lstrip())],
                        "secrets": [{"value": oc["value"], "cls": G.classify(oc["value"])[0], "slen": 0, "index": ln.split().index(oc["head"] + oc["value"] + oc["tail"]),
                                     "pre": "", "post": "", "head": oc["head"], "tail": oc["tail"], "n": 1}]}
                for e in G.project(conc, o, "replace"):
                    e["ev"] = "sec"
                    e["key"] = G.secret_key(oc["value"])
                    if oc["enc"] == "bad" and e["ocls"] in ("juniper9", "text"):
                        e["cls"] = e["ocls"]       # don't-care: a $9$-looking string that does not decrypt may count as $9$ or as text
                    ev.append(e)
                    # drift: M's predicted pseudonym number
                    import re
                    m = re.search(r"netconanRemoved(\d+)", e["pseudo"] or "")
                    if m and int(m.group(1)) != oc["reply"]["n"] and len(ck.drift) < 5:
                        ck.drift.append({"history": [x[0] for x in h], "model_n": oc["reply"]["n"], "code": e["pseudo"]})
        traces.append(ev)
        hkey = "history=%s" % "|".join("%s:%s" % (o[0][0], o[0][1]) for o in h)
        # the history class behind finding D14: a $9$ alias of the all-digit secret is seen before its first clear occurrence
        encs = [o[0][1] for o in h if o[0][0] == "A"]
        if "clear" in encs and any(e in ("c1", "c2") for e in encs[: encs.index("clear")]):
            hkey = "history-class=numeric-secret-first-seen-as-$9$-then-clear"
        meta.append({"key": hkey, "lines": lines, "outs": outs})
        ck.count(("hist", json.dumps([x[0] for x in h])))
    return traces, meta


def long_runs(ck, pid, tier):
    """Long random runs: hundreds of secret lines with repetitions, all classes, $9$ aliases."""
    thorough = tier == "thorough"
    traces, meta = [], []
    reserved = set(default_reserved_words)
    for run in range(8 if thorough else 3):
        r = rng(pid, "long", run)
        pool = []
        for cls in ("text", "numeric", "hex", "type7", "md5", "sha512", "juniper9"):
            for _ in range(4):
                pool.append(G.gen_secret(r, cls, 4, avoid=reserved))
        # aliases: other $9$ encodings of existing $9$ plaintexts, and the clear texts themselves
        for v in [p for p in pool if p.startswith("$9$")][:3]:
            pt = G.j9_decode(v)
            pool.append(G.j9_encode(pt, r.choice(G.ALPHA)))
            pool.append(G.j9_encode(pt, "-"))                 # every character of the alphabet can start / occur in an encoding
            pool.append(pt)
        # the other-case spelling of hexadecimal values is another secret; so is a value that looks like a placeholder
        for v in [p for p in pool if G.classify(p)[0] == "hex" and p.swapcase() != p][:3]:
            if G.classify(v.swapcase())[0] == "hex":
                pool.append(v.swapcase())
        pool += ["netconanRemoved2", "netconanRemoved7", "netconanRemoved11"]
        # plaintexts with characters >= 0x80 have perfectly valid $9$ encodings too
        for pt in ("p\u00e4ssw\u00f6rd", "cl\u00e9-secr\u00e8te"):
            for _ in range(3):
                pool.append(G.j9_encode(pt, r.choice(G.ALPHA)))
        lines, vals = [], []
        for i in range(200 if thorough else 80):
            v = r.choice(pool)
            hd, tl = G.WRAP[r.choice(list(G.WRAP))]
            form = r.choice(LINE_FORMS)
            if v.startswith(("$9$", "$1$")) and i % 3 == 0:
                form = ["my hash is {}", "description backup of {}", "chap-secret {}"][i // 3 % 3]     # no keyword: the lone hash-shaped token form
            lines.append(form.format(hd + v + tl))
            vals.append((v, hd, tl))
        if run % 3 == 2:
            # secrets together with sensitive words that are PARTS of the clear-text secrets: a secret is recognised
            # (and filed under its own text) before any word inside it is rewritten
            pts = [G.secret_key(p) for p in pool if G.classify(p)[0] in ("text", "juniper9") and not p.startswith("netconanRemoved")]
            frs = sorted({pt[1:6] for pt in pts if len(pt) >= 7 and pt[1:6].isalnum() and not pt[1:6].isdigit()})
            outs, logs = run_lines(lines, "s%d" % run, "io-words", words=frs)
        else:
            outs, logs = run_lines(lines, ["s%d" % run, ""][run % 2], "io" if run % 2 else "rmi")
        ev = [{"ev": "run", "clauses": CLAUSES[pid]}]
        if isinstance(outs, str):
            ev.append({"ev": "exc", "what": outs})
        else:
            for ln, o, (v, hd, tl) in zip(lines, outs, vals):
                w = ln.split()
                conc = {"words": w, "lead": ln[: len(ln) - len(ln.lstrip())],
                        "secrets": [{"value": v, "cls": G.classify(v)[0], "slen": G.classify(v)[1], "index": w.index(hd + v + tl), "pre": "", "post": "", "head": hd, "tail": tl, "n": 1}]}
                for e in G.project(conc, o, "replace"):
                    e["ev"] = "sec"
                    e["key"] = G.secret_key(v)
                    ev.append(e)
        traces.append(ev)
        meta.append({"key": "long-run", "lines": lines[:3]})
        ck.count(("long", run))
    return traces, meta


def same_form_twice(ck, pid):
    """Two different secrets in two occurrences of the same syntax on one line (different kept text before each)."""
    traces, meta = [], []
    r = rng(pid, "twice")
    forms = ["password {} password {}", "key {} key {}", "snmp-server community {} snmp-server community {}",
             "password 0 {} ; password 7 {}", "enable password level 3 {} , enable password level 5 {}", "key hexadecimal {} key 7 {}",
             '{{"a": "password {}", "b": "password 5 {}"}}']
    if pid == "C07":
        # (a greedy '(\\S+ )*' prefix makes the snmp form skip to its LAST occurrence on the line; two statements on
        # one line are outside the recognised forms, so that form is only judged for consistency in C08/C09)
        forms = [f for f in forms if not f.startswith("snmp-server")]
    for fi, form in enumerate(forms):
        a = G.gen_secret(r, "text")
        b = G.gen_secret(r, ["text", "type7", "hex", "md5"][fi % 4])
        ln = form.format(a, b)
        outs, _ = run_lines([ln], ["TESTSALT", "", "Qx"][fi % 3], "rmi" if fi % 2 else "io")
        ev = [{"ev": "run", "clauses": CLAUSES[pid]}]
        if isinstance(outs, str):
            ev.append({"ev": "exc", "what": outs})
        else:
            w = ln.split()
            secs = []
            for n, v in enumerate((a, b)):
                idx = [i for i, t in enumerate(w) if v in t][0]
                tok = w[idx]
                pre, post = tok[: tok.index(v)], tok[tok.index(v) + len(v):]
                secs.append({"value": v, "cls": G.classify(v)[0], "slen": G.classify(v)[1], "index": idx, "pre": pre, "post": post, "head": "", "tail": "", "n": n + 1})
            conc = {"words": w, "lead": ln[: len(ln) - len(ln.lstrip())], "secrets": secs}
            for sd, e in zip(secs, G.project(conc, outs[0], "replace")):
                e["ev"] = "sec"
                e["key"] = G.secret_key(sd["value"])
                ev.append(e)
        traces.append(ev)
        meta.append({"key": "same-syntax-twice-on-one-line", "lines": [ln], "outs": outs})
    return traces, meta


def reserved_case_variants(ck, pid):
    """Secrets that are spelled like a reserved word in ANOTHER letter case are secrets (only a value that IS a
    reserved word is exempt): they must be replaced and the paired outputs must agree."""
    traces, meta = [], []
    variants = [("Cisco", "Admin"), ("PRIVATE", "MONITOR"), ("Default", "Interface"), ("AF11x".replace("x", ""), "FEC"), ("Permit", "Deny")]
    forms = ["enable secret {}", "snmp-server community {} RO", 'key "{}";', "username bob password 0 {}", " set password {}"]
    for vi, pair in enumerate(variants):
        pair = [v for v in pair if v not in default_reserved_words and v.lower() in default_reserved_words]
        if len(pair) < 2:
            continue
        form = forms[vi % len(forms)]
        ev = [{"ev": "run", "clauses": CLAUSES[pid]}]
        outs2 = []
        for v in pair:
            ln = form.format(v)
            outs, logs = run_lines([ln], ["TESTSALT", ""][vi % 2], "rmi" if vi % 2 else "io")
            if isinstance(outs, str):
                ev.append({"ev": "exc", "what": outs})
                continue
            w = ln.split()
            idx = [i for i, t in enumerate(w) if v in t][0]
            tok = w[idx]
            conc = {"words": w, "lead": ln[: len(ln) - len(ln.lstrip())],
                    "secrets": [{"value": v, "cls": G.classify(v)[0], "slen": 0, "index": idx, "pre": tok[: tok.index(v)], "post": tok[tok.index(v) + len(v):], "head": "", "tail": "", "n": 1}]}
            for e in G.project(conc, outs[0], "replace"):
                e["ev"] = "sec"
                e["key"] = v
                ev.append(e)
            ev.append({"ev": "run", "clauses": CLAUSES[pid]})
            outs2.append(outs[0])
        traces.append(ev)
        meta.append({"key": "secret-is-case-variant-of-reserved-word", "lines": [form.format(v) for v in pair], "outs": outs2})
    return traces, meta


def files_workload(ck, pid):
    """One run over a directory in which a file in the middle cannot be decoded: the files before and after it
    must still share one consistent, collision-free lookup (C08: 'within one run')."""
    import logging
    traces, meta = [], []
    r = rng(pid, "files")
    for variant in range(3):
        base = tlc.subdir("c08files_%d" % variant)
        ind, outd = os.path.join(base, "in"), os.path.join(base, "out")
        secs = [G.gen_secret(r, c) for c in ("text", "hex", "type7", "text", "numeric", "md5")]
        files = {
            "a_first.cfg": ["enable secret %s" % secs[0], "snmp-server community %s RO" % secs[1], "username bob password 7 %s" % secs[2]],
            "m_broken.cfg": None,
            "z_last.cfg": ["enable secret %s" % secs[0], "tacacs-server key %s" % secs[3], "key %s" % secs[4], "enable secret 5 %s" % secs[5], "snmp-server community %s RW" % secs[1]],
        }
        if variant == 1:
            files["sub/deeper.cfg"] = ["key %s" % secs[3], "enable secret %s" % secs[0]]
        os.makedirs(ind)
        for name, lines in files.items():
            pth = os.path.join(ind, name)
            os.makedirs(os.path.dirname(pth), exist_ok=True)
            with open(pth, "wb") as fh:
                fh.write(("enable secret BrokenFileSecretXq\n".encode() + b"\xff\xfe broken \xff\n") if lines is None else ("\n".join(lines) + "\n").encode())
        root = logging.getLogger()
        old = root.level
        root.setLevel(logging.CRITICAL)
        try:
            AF.anonymize_files(ind, outd, True, False, salt=["TESTSALT", "", "Qx"][variant])
        except Exception as e:
            traces.append([{"ev": "run", "clauses": CLAUSES[pid]}, {"ev": "exc", "what": "anonymize_files: %r" % (e,)}])
            meta.append({"key": "files-with-broken-file-in-the-middle", "lines": []})
            continue
        finally:
            root.setLevel(old)
        ev = [{"ev": "run", "clauses": CLAUSES[pid]}]
        shown = []
        for name in sorted(n for n, l in files.items() if l is not None):
            po = os.path.join(outd, name)
            outs = open(po, encoding="utf-8").read().split("\n")[:-1] if os.path.isfile(po) else None
            if outs is None or len(outs) != len(files[name]):
                ev.append({"ev": "exc", "what": "output of %s missing or has another number of lines" % name})
                continue
            for ln, o in zip(files[name], outs):
                w = ln.split()
                v = w[-2] if w[-1] in ("RO", "RW") else w[-1]
                conc = {"words": w, "lead": "", "secrets": [{"value": v, "cls": G.classify(v)[0], "slen": G.classify(v)[1], "index": w.index(v), "pre": "", "post": "", "head": "", "tail": "", "n": 1}]}
                for e in G.project(conc, o, "replace"):
                    e["ev"] = "sec"
                    e["key"] = G.secret_key(v)
                    ev.append(e)
                shown.append("%s: %s -> %s" % (name, ln, o))
        traces.append(ev)
        meta.append({"key": "files-with-broken-file-in-the-middle", "lines": shown})
        ck.count(("c08files", variant))
    return traces, meta


def bom_files(ck, pid):
    """File entry points: a byte order mark (or any other text) in front of the keyword of the FIRST line is text before
    the secret like any other and is kept; so are CRLF terminators."""
    base = tlc.subdir("bom_%s" % pid)
    traces, meta = [], []
    r = rng(pid, "bom")
    variants = (("\ufeff", "\n"), ("\ufeff", "\r\n"), ("", "\r\n")) + ((("NUL", "\n"),) if pid == "C07" else ())
    for vi, (bom, eol) in enumerate(variants):
        vals = [G.gen_secret(r, c, 4, avoid=set(default_reserved_words)) for c in ("text", "md5", "type7")]
        lines = ["enable secret %s" % vals[0], "username bob password 5 %s" % vals[1], " key 7 %s" % vals[2]]
        if bom == "NUL":
            # a NUL character near the top (telnet captures end lines with CR NUL): still a text file, every secret is replaced
            bom = ""
            lines[2] = lines[2] + "\r\x00"
        ind, outd = os.path.join(base, "in%d" % vi), os.path.join(base, "out%d" % vi)
        os.makedirs(ind)
        with open(os.path.join(ind, "first.cfg"), "wb") as fh:
            fh.write((bom + eol.join(lines) + eol).encode("utf-8"))
        ev = [{"ev": "run", "clauses": CLAUSES[pid]}]
        try:
            with_logs(lambda: AF.anonymize_files(ind, outd, True, False, salt="bom"))
            got = open(os.path.join(outd, "first.cfg"), "rb").read().decode("utf-8")
            outs = got.split(eol)[:-1] if got.endswith(eol) else got.split(eol)
            if len(outs) != len(lines):
                ev.append({"ev": "exc", "what": "%d lines in, %d lines out" % (len(lines), len(outs))})
            else:
                for ln, o, v in zip([bom + lines[0]] + lines[1:], outs, vals):
                    ln, o = ln.replace("\r\x00", ""), o.replace("\r\x00", "")
                    w = ln.split(" ")
                    w = [x for x in w if x]
                    conc = {"words": w, "lead": ln[: len(ln) - len(ln.lstrip(" "))],
                            "secrets": [{"value": v, "cls": G.classify(v)[0], "slen": G.classify(v)[1], "index": w.index(v), "pre": "", "post": "", "head": "", "tail": "", "n": 1}]}
                    for e in G.project(conc, o, "replace"):
                        e["ev"] = "sec"
                        e["key"] = G.secret_key(v)
                        ev.append(e)
        except Exception as e:
            ev.append({"ev": "exc", "what": "anonymize_files: %r" % (e,)})
        traces.append(ev)
        meta.append({"key": "file-entry bom=%s eol=%s" % (bool(bom), "crlf" if eol == "\r\n" else "lf"), "lines": lines})
        ck.count(("bom", vi))
    return traces, meta


def run(pid, tier):
    ck = Check(pid, tier)
    ck.assumptions = ["the form table in SecretForms.tla (derived from the documented syntaxes) is the set of recognised line forms",
                      "secrets are generated disjoint between format classes, avoid reserved words and quote/terminator characters",
                      "independent decoders ($9$ from Juniper.tla, type 7, shape patterns for $1$/$6$) are trusted; word and AS stages are off"]
    ck.model("Secrets", "Secrets.cfg", "R: lookup stays injective and only grows", workers=4)
    salts = ["TESTSALT", "", "#first-char-outside-alphabet", "Qsalt", "s_alt", "B#1", "Q_+=x", "7 days", "z\u00e9"]
    if pid == "C07":
        G.EXTRA_SHORT[:] = ["`Zq", "Kx`", "`Hm`"]
    traces, meta = forms_workload(ck, pid, tier, salts)
    judge(ck, pid, traces, meta, "forms")
    if pid == "C07":
        als_all = [m["al"] for m in meta]
        traces2, meta2 = sequences_workload(ck, pid, tier, als_all)
        judge(ck, pid, traces2, meta2, "sequences")
    ck.sample({"abstract_line": meta[0]["al"], "concrete": meta[0]["conc"]["line"], "out": meta[0]["info"][1]})
    if pid in ("C08", "C09"):
        traces, meta = history_workload(ck, pid, tier)
        judge(ck, pid, traces, meta, "history")
        ck.sample({"history": meta[len(meta) // 2]})
        traces, meta = long_runs(ck, pid, tier)
        judge(ck, pid, traces, meta, "long-run")
    if pid in ("C07", "C08", "C09"):
        traces, meta = same_form_twice(ck, pid)
        judge(ck, pid, traces, meta, "twice")
    if pid == "C07":
        traces, meta = reserved_case_variants(ck, pid)
        judge(ck, pid, traces, meta, "reserved-case-variant")
    if pid == "C08":
        traces, meta = files_workload(ck, pid)
        judge(ck, pid, traces, meta, "files")
    if pid in ("C09", "C07"):
        traces, meta = bom_files(ck, pid)
        judge(ck, pid, traces, meta, "file-entry")
    ck.rule = ("cases = abstract lines enumerated by TLC from the form table (distinct by form, alternatives, class, wrap, lead), "
               "occurrence histories enumerated by TLC from PwdLookup, long random runs; each concretized with fresh secret values")
    return ck.finish()


if __name__ == "__main__":
    common.main_wrapper(lambda: run(sys.argv[1], sys.argv[2] if len(sys.argv) > 2 else "quick"))
