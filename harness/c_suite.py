"""Trace validation of the repository's own test-suite executions.

The 2409 tests are run once under the recording plugin (verif_recorder.py, no
change to /repo) and every recorded call - integer-API requests, dumps,
address rewriting of lines, $9$ codec calls - is judged by TLC against the
R-modules, i.e. the properties are evaluated at every step of tests whose own
assertions are much weaker.
"""
import ipaddress
import json
import os
import subprocess
import sys

import common
import ipdrive as D
import tlc
from common import validate_traces

_cache = {}


def record():
    """Run the repository's tests under the recorder once per process; returns the directory with the ndjson files."""
    if "dir" in _cache:
        return _cache["dir"]
    d = tlc.subdir("suite")
    env = dict(os.environ, PYTHONPATH=common.HERE + os.pathsep + common.REPO, VERIF_RECORD_DIR=d)
    p = subprocess.run([sys.executable, "-m", "pytest", "-q", "-p", "no:cacheprovider", "-p", "verif_recorder", "-x", "--no-cov", "tests"],
                       cwd=common.REPO, env=env, stdout=subprocess.PIPE, stderr=subprocess.STDOUT, text=True)
    tail = p.stdout.strip().splitlines()[-1] if p.stdout.strip() else ""
    _cache["dir"] = d
    _cache["tail"] = tail
    _cache["rc"] = p.returncode
    return d


def _load(kind):
    p = os.path.join(record(), kind + ".ndjson")
    if not os.path.exists(p):
        return []
    return [json.loads(x) for x in open(p)]


def _cfg_key(c):
    k = (c["fam"], c["salt"], c["ps"], tuple(c["pins"]), tuple(c["nets"]))
    return k + ((c["n"],) if c.get("custom_salter") else ())


def _pins(c):
    try:
        return [D.cidr_bits(x) for x in c["pins"]], [D.cidr_bits(x) for x in c["nets"]]
    except ValueError:
        return None


def ip_traces(pid_clauses):
    groups = {}
    for e in _load("ip"):
        groups.setdefault(_cfg_key(e["cfg"]), []).append(e)
    traces, meta = [], []
    for key, evs in groups.items():
        c = evs[0]["cfg"]
        pn = _pins(c)
        if pn is None or not isinstance(c["salt"], str):
            continue
        W = 32 if c["fam"] == 4 else 128
        pins, nets = pn
        for i in range(0, len(evs), 70):
            tr = [D.cfg_event(W, c["ps"] or 0, pins, nets, pid_clauses)]
            for e in evs[i:i + 70]:
                if e["ev"] in ("anon", "deanon"):
                    tr.append({"ev": e["ev"], "inst": e["cfg"]["n"], "x": D.bits_of(int(e["x"]), W), "y": D.bits_of(int(e["y"]), W)})
                elif e["ev"] == "dump":
                    pairs, bad = [], []
                    for line in e["text"].splitlines():
                        parts = line.split("\t")
                        try:
                            A = ipaddress.IPv4Address if W == 32 else ipaddress.IPv6Address
                            pairs.append([D.bits_of(int(A(parts[0])), W), D.bits_of(int(A(parts[1])), W)])
                        except (ValueError, IndexError):
                            bad.append(line[:80])
                    if len(pairs) <= 80:
                        tr.append({"ev": "dump", "inst": e["cfg"]["n"], "pairs": pairs, "bad": bad})
            traces.append(tr)
            meta.append({"suite_cfg": {k: c[k] for k in ("fam", "salt", "ps", "pins", "nets")}, "events": len(tr) - 1})
    return traces, meta


def line_traces(clauses):
    groups = {}
    for e in _load("line"):
        groups.setdefault(_cfg_key(e["cfg"]) + (e["undo"],), []).append(e)
    traces, meta = [], []
    for key, evs in groups.items():
        c = evs[0]["cfg"]
        pn = _pins(c)
        if pn is None or not isinstance(c["salt"], str):
            continue
        pins, nets = pn
        for i in range(0, len(evs), 60):
            tr = [{"ev": "cfg", "on4": c["fam"] == 4, "on6": c["fam"] == 6, "undo": evs[0]["undo"], "ps4": (c["ps"] or 0) if c["fam"] == 4 else 0,
                   "ps6": (c["ps"] or 0) if c["fam"] == 6 else 0, "pins4": pins, "nets4": nets, "clauses": clauses}]
            texts = [None]
            for e in evs[i:i + 60]:
                tr.append({"ev": "line", "in": [ord(ch) for ch in e["in"]], "out": [ord(ch) for ch in e["out"]]})
                texts.append((e["in"], e["out"]))
            traces.append(tr)
            meta.append({"suite_cfg": {k: c[k] for k in ("fam", "salt", "ps")}, "texts": texts})
    return traces, meta


def juniper_traces():
    evs = _load("juniper")
    traces = []
    for i in range(0, len(evs), 200):
        traces.append([{"ev": "start"}] + evs[i:i + 200])
    return traces


def words_traces(clauses):
    """Sensitive-word anonymizer calls made by the repository's tests, as WordsTrace traces (pseudonyms are learned
    from single-word anonymizers with the same salt, as in c_words)."""
    from netconan.sensitive_item_removal import SensitiveWordAnonymizer
    from netconan.default_reserved_words import default_reserved_words
    builtin = {w.lower() for w in default_reserved_words}
    groups = {}
    for e in _load("words"):
        c = e["cfg"]
        if not isinstance(c["salt"], str) or not all(isinstance(w, str) and w for w in c["words"]):
            continue
        groups.setdefault((tuple(c["words"]), c["salt"], tuple(c["reserved"]) if c["reserved"] is not None else None), []).append(e)
    traces, meta = [], []
    for (words, salt, reserved), evs in groups.items():
        lines = [(e["in"], e["out"]) for e in evs if "\n" not in e["in"].rstrip("\n") and len(e["in"]) < 300][:120]
        if not lines:
            continue
        toks = {t for ln, _ in lines for t in ln.split()}
        resv = sorted(set(reserved) if reserved is not None else {t.lower() for t in toks if t.lower() in builtin})
        mts = set()
        for t in toks:
            tl = t.lower()
            for w in words:
                i = tl.find(w.lower())
                while i >= 0:
                    mts.add(t[i:i + len(w)])
                    i = tl.find(w.lower(), i + 1)
        tr = [{"ev": "cfg", "words": [[ord(ch) for ch in w] for w in words], "reserved": [[ord(ch) for ch in w] for w in resv], "clauses": clauses}]
        texts = [None]
        for t in sorted(mts):
            p = SensitiveWordAnonymizer([t], salt, []).anonymize(t)
            tr.append({"ev": "learn", "text": [ord(ch) for ch in t], "pseudo": [ord(ch) for ch in p]})
            texts.append(("learn", "%r -> %r" % (t, p)))
        for ln, out in lines:
            a, b = ln.rstrip("\n"), out.rstrip("\n")
            tr.append({"ev": "line", "in": [ord(ch) for ch in a], "out": [ord(ch) for ch in b]})
            texts.append(("repository-test-suite", "%r -> %r" % (a, b)))
        traces.append(tr)
        meta.append({"cfg": {"words": list(words), "reserved": resv[:10], "salt": salt, "source": "repository test-suite"}, "texts": texts})
    return traces, meta


def note(ck):
    ck.notes["repository_test_suite_under_recorder"] = {"pytest": _cache.get("tail"), "rc": _cache.get("rc")}
