"""C16 glue: concretization of abstract file scenarios (Files.tla) on disk, the
drivers of the real entry points, and the projection of what happened to the
abstract events judged by FilesTrace.tla.

Nothing here decides a verdict: contents are reduced to digests (strings) and
TLC decides every equality; Python only (a) builds the sandbox, (b) calls the
entry point, (c) looks for a file's name inside report texts.
"""
import hashlib
import io
import json
import logging
import os
import re
import shutil
import subprocess
import sys

SALT = "C16-salt"
HOST_BITS = 8
WORDS = ["acme"]
ASNS = ["12345", "65001"]
FEATS = {
    "P": {"pwd": True, "ip": False, "words": None, "asn": None},
    "A": {"pwd": False, "ip": True, "words": None, "asn": None},
    "PAWN": {"pwd": True, "ip": True, "words": WORDS, "asn": ASNS},
    # undo of the address anonymization (needs the salt; excludes -a), alone and with each other feature
    "U": {"pwd": False, "ip": False, "words": None, "asn": None, "undo": True},
    "UP": {"pwd": True, "ip": False, "words": None, "asn": None, "undo": True},
    "UW": {"pwd": False, "ip": False, "words": WORDS, "asn": None, "undo": True},
    "UN": {"pwd": False, "ip": False, "words": None, "asn": ASNS, "undo": True},
    "UPWN": {"pwd": True, "ip": False, "words": WORDS, "asn": ASNS, "undo": True},
}
UNDO_SETS = ["U", "UP", "UW", "UN", "UPWN"]
DIRS = {0: "", 1: "sub dir", 2: "sub dir/nést/deep", 3: ".dotdir"}
NAMES = {"a": "alpha.cfg", "b": "beta.txt", "sp": "my router.cfg", "uni": "röuter-中文.cfg", "dot": ".hidden.cfg"}
NAME_ORDER = ["a", "b", "sp", "uni", "dot"]
LF_CLASSES = ["lf", "noeol", "nonascii", "empty", "blank"]
NL_CLASSES = ["crlf", "cr", "crlf", "mixed"]
BAD_BYTES = b"plain line one\nbinary \xff\xfe\x80 tail \xc3\x28\nplain line three\n"
STALE = b"stale output of an earlier run\n"
DERIVED_SUFFIXES = [".tmp", ".bak", "~", ".orig", ".new"]
EMPTY_DIGEST = "F:" + hashlib.sha1(b"").hexdigest()


def digest(b):
    return "F:" + hashlib.sha1(b).hexdigest()


def kind_index(k):
    return k["dir"] * len(NAME_ORDER) + NAME_ORDER.index(k["name"])


def kind_id(k):
    return "d%d-%s" % (k["dir"], k["name"])


def basename(k):
    n = NAMES[k["name"]]
    # unique across the tree, so that a report names a file unambiguously
    return (".d%d-%s" % (k["dir"], n[1:])) if n.startswith(".") else ("d%d-%s" % (k["dir"], n))


def ok_bytes(i, cls):
    """Decodable content of class cls for the file with index i.  Every file
    introduces the same two secrets in the same order (pseudonym numbering is
    then independent of the other files and of the processing order); the
    lines differ per file, so that outputs of different files differ."""
    if cls == "empty":
        return b""
    if cls == "blank":
        return ("\n \n\t\n" + " " * (i % 3) + "\n").encode()
    lines = [
        "hostname router-%d" % i,
        "! site %d of ACME corp" % i,
        "username admin password 0 S3cretOne",
        "snmp-server community CommTwo RO",
        "interface Ethernet%d" % i,
        " ip address 11.22.%d.7 255.255.255.0" % (30 + i),
        " ipv6 address 2001:db8:%x::1/64" % (i + 1),
        "router bgp 12345",
        " neighbor 44.55.66.%d remote-as 65001" % (i + 10),
        " neighbor 44.55.66.%d password S3cretOne" % (i + 10),
        "end of file %d" % i,
    ]
    if cls == "nonascii":
        lines.insert(2, "! Zürich – 東京 ñ site %d" % i)
    if cls == "crlf":
        text = "\r\n".join(lines) + "\r\n"
    elif cls == "mixed":
        text = "".join(l + ("\r\n" if j % 2 else "\n") for j, l in enumerate(lines))
    elif cls == "cr":
        # a lone CR, only inside a line without any sensitive item
        lines.insert(2, "plain text alpha %d\rplain text beta" % i)
        text = "\n".join(lines) + "\n"
    elif cls == "noeol":
        text = "\n".join(lines)
    else:
        text = "\n".join(lines) + "\n"
    return text.encode("utf-8")


def nl_translate(b):
    return b.replace(b"\r\n", b"\n").replace(b"\r", b"\n")


# ---------------------------------------------------------------------------
# the real entry points
# ---------------------------------------------------------------------------
class _Cap(logging.Handler):
    def __init__(self):
        logging.Handler.__init__(self, level=logging.WARNING)
        self.texts = []

    def emit(self, record):
        try:
            t = record.getMessage()
        except Exception:
            t = str(record.msg)
        if record.exc_info and record.exc_info[1] is not None:
            t += " | " + str(record.exc_info[1])
        self.texts.append(t)


def _captured(fn):
    """Run fn() with WARNING+ log records captured.  Returns (report texts, raised text or None)."""
    root = logging.getLogger()
    cap = _Cap()
    old_handlers, old_level = root.handlers[:], root.level
    root.handlers[:] = [cap]
    root.setLevel(logging.WARNING)
    raised = None
    try:
        fn()
    except BaseException as e:  # SystemExit included: argparse
        if isinstance(e, KeyboardInterrupt):
            raise
        raised = "%s: %s" % (type(e).__name__, e)
    finally:
        root.handlers[:] = old_handlers
        root.setLevel(old_level)
    return cap.texts, raised


def feat_opts(feat):
    """Option set of a feature name.  'HB:<v4>:<v6>' = passwords + addresses with the host-bit options
    given separately ('-' = that option is NOT passed at all)."""
    if feat.startswith("HB:"):
        _, v4, v6 = feat.split(":")
        return dict(pwd=True, ip=True, words=None, asn=None, hb={k: int(v) for k, v in (("preserve_suffix_v4", v4), ("preserve_suffix_v6", v6)) if v != "-"})
    return dict(FEATS[feat], hb={"preserve_suffix_v4": HOST_BITS, "preserve_suffix_v6": HOST_BITS})


def make_anonymizer(feat):
    from netconan.anonymize_files import FileAnonymizer
    return FileAnonymizer(**api_kwargs(feat))


def api_kwargs(feat):
    f = feat_opts(feat)
    kw = dict(anon_pwd=f["pwd"], anon_ip=f["ip"], salt=SALT,
              sensitive_words=list(f["words"]) if f["words"] else None,
              as_numbers=list(f["asn"]) if f["asn"] else None, **f["hb"])
    if f.get("undo"):
        kw["undo_ip_anon"] = True
    return kw


def cli_args(feat, inp, outp):
    f = FEATS[feat]
    a = ["-i", inp, "-o", outp, "-s", SALT, "--preserve-host-bits", str(HOST_BITS)]
    if f["pwd"]:
        a.append("-p")
    if f["ip"]:
        a.append("-a")
    if f.get("undo"):
        a.append("-u")
    if f["words"]:
        a += ["-w", ",".join(f["words"])]
    if f["asn"]:
        a += ["-n", ",".join(f["asn"])]
    return a


_ref_cache = {}


def stream_ref(data, feat):
    """The in-memory stream API on the file's text (fresh anonymizer). None when the bytes are not text."""
    key = (data, feat)
    if key not in _ref_cache:
        try:
            text = data.decode("utf-8")
        except UnicodeDecodeError:
            _ref_cache[key] = None
        else:
            out = io.StringIO()
            make_anonymizer(feat).anonymize_io(io.StringIO(text), out)
            _ref_cache[key] = out.getvalue().encode("utf-8")
    return _ref_cache[key]


def run_entry(entry, feat, inp, outp, repo):
    """Returns (report texts, raised)."""
    if entry in ("dir", "file"):
        from netconan.anonymize_files import anonymize_files
        kw = api_kwargs(feat)
        pwd, ip = kw.pop("anon_pwd"), kw.pop("anon_ip")
        return _captured(lambda: anonymize_files(inp, outp, pwd, ip, **kw))
    if entry in ("main", "main1"):
        from netconan.netconan import main
        return _captured(lambda: main(cli_args(feat, inp, outp)))
    if entry == "fafile":
        return _captured(lambda: make_anonymizer(feat).anonymize_file(inp, outp))
    if entry in ("cli", "cli1"):
        env = dict(os.environ, PYTHONPATH=repo, NETCONAN_REPO=repo, PYTHONUTF8="1")
        p = subprocess.run([sys.executable, "-m", "netconan.netconan"] + cli_args(feat, inp, outp),
                           env=env, stdout=subprocess.PIPE, stderr=subprocess.STDOUT, timeout=300)
        text = p.stdout.decode("utf-8", "replace")
        # every line of the tool's console output is a report text
        return [l for l in text.splitlines() if l.strip()], (None if p.returncode == 0 else "exit %d" % p.returncode)
    raise ValueError(entry)


# ---------------------------------------------------------------------------
# sandbox
# ---------------------------------------------------------------------------
def snapshot(root):
    snap = {}
    for dp, dns, fns in os.walk(root):
        for d in dns:
            snap[os.path.relpath(os.path.join(dp, d), root)] = "DIR"
        for f in fns:
            p = os.path.join(dp, f)
            with open(p, "rb") as fh:
                snap[os.path.relpath(p, root)] = digest(fh.read())
    return snap


def _write(path, data):
    os.makedirs(os.path.dirname(path), exist_ok=True)
    with open(path, "wb") as fh:
        fh.write(data)


class World:
    """One materialised scenario: group = tree + environment + options, faults = {kind_id: fault}."""

    def __init__(self, group, faults):
        self.g = group
        self.mode = group["mode"]
        self.faults = faults
        self.files = sorted(group["files"], key=kind_index)
        classes = NL_CLASSES if group["family"] == "nl" else LF_CLASSES
        self.cls = {}
        self.data = {}
        for j, k in enumerate(self.files):
            kid = kind_id(k)
            self.cls[kid] = classes[(j + group["variant"]) % len(classes)]
            self.data[kid] = BAD_BYTES if faults.get(kid) == "decode" else ok_bytes(kind_index(k), self.cls[kid])

    def in_rel(self, k):
        if self.mode == "single":       # odd variants: the named file lives in a directory with a space
            return os.path.join("in", "dev 1", basename(k)) if self.g["variant"] % 2 else os.path.join("in", basename(k))
        return os.path.normpath(os.path.join("in", DIRS[k["dir"]], basename(k)))

    def slot_rel(self, k):
        if self.mode == "single":
            sub = "out dir/new/deeper" if self.g["esub"] else "out dir"
            return os.path.join(sub, "result of " + basename(k) + ".out")
        return os.path.normpath(os.path.join("out", DIRS[k["dir"]], basename(k)))

    def blocker_rel(self):
        """Path (relative to the sandbox) of the regular file that takes the place of an output
        sub-directory, or None.  Directory 1 blocked: its own name.  Only directory 2 blocked:
        one of the three levels of its path, chosen by the content variant."""
        dirs = {k["dir"] for k in self.files if self.faults.get(kind_id(k)) == "blocked"}
        if not dirs:
            return None
        parts = DIRS[2].split("/")
        depth = 1 if 1 in dirs else 1 + self.g["variant"] % 3
        if 1 not in dirs and any(k["dir"] == 1 and k["name"] != "dot" for k in self.files):
            depth = 2 + self.g["variant"] % 2          # directory 1 has processable files of its own: block below it
        return os.path.join("out", *parts[:depth])

    def build(self, root):
        g = self.g
        _write(os.path.join(root, "beside.txt"), b"a bystander next to the input\n")
        for k in self.files:
            _write(os.path.join(root, self.in_rel(k)), self.data[kind_id(k)])
        if self.mode == "tree":
            if g["esub"]:
                os.makedirs(os.path.join(root, "in", "empty sub"), exist_ok=True)
                os.makedirs(os.path.join(root, "in", "sub dir", "void"), exist_ok=True)
            if g["pre"] in ("empty", "stale"):
                os.makedirs(os.path.join(root, "out"), exist_ok=True)
            if g["pre"] == "stale":
                _write(os.path.join(root, "out", "keep.txt"), b"unrelated file in the output directory\n")
                _write(os.path.join(root, "out", "old dir", "old.cfg"), b"another unrelated file\n")
        else:
            if not g["esub"]:
                os.makedirs(os.path.join(root, "out dir"), exist_ok=True)
                if g["pre"] == "stale":
                    _write(os.path.join(root, "out dir", "keep.txt"), b"unrelated file\n")
        blocker = self.blocker_rel()
        if blocker:
            _write(os.path.join(root, blocker), b"a regular file where an output sub-directory is needed\n")
        for k in self.files:
            kid = kind_id(k)
            slot = os.path.join(root, self.slot_rel(k))
            visible = self.mode == "single" or not (k["name"] == "dot" or k["dir"] == 3)
            under_blocker = bool(blocker) and (self.slot_rel(k) + os.sep).startswith(blocker + os.sep)
            if self.faults.get(kid) == "outdir":
                os.makedirs(slot, exist_ok=True)
            elif g["pre"] == "stale" and visible and not under_blocker:
                _write(slot, STALE + kid.encode())
            if g["pre"] == "stale" and visible and not under_blocker:
                # unrelated files whose names are DERIVED from the output name (scratch / backup spellings)
                for sfx in DERIVED_SUFFIXES:
                    _write(slot + sfx, b"unrelated pre-existing file " + (kid + sfx).encode() + b"\n")

    def paths(self, root):
        if self.mode == "single":
            k = self.files[0]
            return os.path.join(root, self.in_rel(k)), os.path.join(root, self.slot_rel(k))
        return os.path.join(root, "in"), os.path.join(root, "out")

    def execute(self, entry, root, repo):
        """Build, run, observe.  Returns dict(out={kid: digest}, obs=...)."""
        if os.path.exists(root):
            shutil.rmtree(root)
        os.makedirs(root)
        self.build(root)
        snap0 = snapshot(root)
        inp, outp = self.paths(root)
        texts, raised = run_entry(entry, self.g["feat"], inp, outp, repo)
        snap1 = snapshot(root)
        shutil.rmtree(root, ignore_errors=True)
        return {"snap0": snap0, "snap1": snap1, "texts": texts, "raised": raised, "entry": entry}

    def project(self, ex, base_out, tol=False):
        """Abstract events of one execution (see FilesTrace.tla)."""
        snap0, snap1 = ex["snap0"], ex["snap1"]
        report_texts = list(ex["texts"]) + ([ex["raised"]] if ex["raised"] else [])
        events = [{"ev": "start"}]
        special = set()
        outs = {}
        for k in self.files:
            kid = kind_id(k)
            ip, sp = self.in_rel(k), self.slot_rel(k)
            special.update((ip, sp))
            data = self.data[kid]
            fault = self.faults.get(kid, "none")
            ref_b = stream_ref(data, self.g["feat"])
            ref = "NA" if ref_b is None else digest(ref_b)
            # what the stream API returns for the text after universal-newline translation
            refnl = "NA" if ref_b is None else digest(stream_ref(nl_translate(data), self.g["feat"]))
            out = snap1.get(sp, "ABSENT")
            outs[kid] = out
            if self.mode == "single":
                reported = bool(report_texts)
            else:
                reported = any(basename(k) in t for t in report_texts)
            events.append({
                "ev": "file", "id": kid, "hidden": self.mode == "tree" and k["name"] == "dot", "indot": k["dir"] == 3,
                "fault": fault, "in0": snap0.get(ip, "ABSENT"), "in1": snap1.get(ip, "ABSENT"),
                "pre": snap0.get(sp, "ABSENT"), "out": out, "ref": ref, "refnl": refnl,
                "ifproc": digest(data) if fault == "decode" else ref,
                "base": out if base_out is None else base_out.get(kid, "ABSENT"),
                "reported": reported, "tol": tol})
        o0 = sorted((p, v) for p, v in snap0.items() if v != "DIR" and p not in special)
        o1 = sorted((p, v) for p, v in snap1.items() if v != "DIR" and p not in special)
        events.append({"ev": "end",
                       "others0": "O:" + hashlib.sha1(json.dumps(o0).encode()).hexdigest(),
                       "others1": "O:" + hashlib.sha1(json.dumps(o1).encode()).hexdigest(),
                       "raised": bool(ex["raised"]), "mayraise": ex.get("entry") == "fafile"})
        d0, d1 = dict(o0), dict(o1)
        info = {"raised": ex["raised"], "reports": [t[:200] for t in report_texts[:4]],
                "others_changed": sorted(p for p in set(d0) | set(d1) if d0.get(p) != d1.get(p))[:6],
                "classes": self.cls}
        return events, outs, info


def actual_class(e):
    if e["out"] == e["pre"]:
        return "PRE"
    if e["out"] == e["ref"]:
        return "REF"
    if e["out"] == EMPTY_DIGEST:
        return "EMPTY"
    return "OTHER"


def run_group(group, fsroot, repo):
    """All scenarios of one group (same tree / environment / options) through
    the group's entry points.  Returns a list of result dicts."""
    results = []
    nofault = {}
    root = os.path.join(fsroot, "w%d" % os.getpid())
    base_outs = {}

    def baseline(entry):
        if entry not in base_outs:
            w = World(group, nofault)
            ex = w.execute(entry, root, repo)
            ev, outs, info = w.project(ex, None)
            base_outs[entry] = (outs, ev, info)
        return base_outs[entry]

    for sc in group["scenarios"]:
        faults = {k: v for k, v in sc["faults"].items() if v != "none"}
        w = World(group, faults)
        for entry in sc["entries"]:
            b_outs, b_ev, b_info = baseline(entry)
            if not faults:
                ev, info = b_ev, b_info
            else:
                ex = w.execute(entry, root, repo)
                ev, _, info = w.project(ex, b_outs)
            drift = []
            if entry in ("dir", "file") and group["family"] == "lf":
                for e in ev:
                    if e["ev"] == "file":
                        p = sc["pred"][e["id"]]
                        if (actual_class(e), e["reported"]) != (p[0], p[1]):
                            drift.append({"file": e["id"], "fault": e["fault"], "model": p,
                                          "code": [actual_class(e), e["reported"]]})
            results.append({"sid": sc["sid"], "gid": group["gid"], "entry": entry, "events": ev,
                            "info": info, "drift": drift})
    # assumption probe: one anonymizer shared over all files, reverse order == fresh anonymizer per file
    w = World(group, nofault)
    shared = make_anonymizer(group["feat"])
    probe_ok = True
    for k in reversed(w.files):
        data = w.data[kind_id(k)]
        out = io.StringIO()
        shared.anonymize_io(io.StringIO(data.decode("utf-8")), out)
        if out.getvalue().encode("utf-8") != stream_ref(data, group["feat"]):
            probe_ok = False
    nontrivial = sum(1 for k in w.files if stream_ref(w.data[kind_id(k)], group["feat"]) != w.data[kind_id(k)])
    return {"results": results, "probe_ok": probe_ok, "nontrivial_files": nontrivial, "gid": group["gid"]}


# ---------------------------------------------------------------------------
# isolation against the tree WITHOUT the failing files (distinct secrets per file)
# ---------------------------------------------------------------------------
ISO_SHAPES = {
    # (directory below in/, base name, role); base names of failing files are unique and no substring of another name
    "S1": [("", "a-first.cfg", "ok"), ("", "m-big.cfg", "fail"), ("", "z-last.cfg", "ok"),
           ("sub dir", "inner.cfg", "ok"), ("sub dir/nést", "deep.cfg", "ok")],
    "S2": [("", "top.cfg", "ok"), ("mid dir", "a-one.cfg", "ok"), ("mid dir", "k-big.cfg", "fail"),
           ("mid dir", "z-two.cfg", "ok"), ("mid dir/deeper", "d-three.cfg", "ok"),
           ("zz dir", "e-four.cfg", "ok"), ("aa dir", "f-five.cfg", "ok")],
    "S3": [("", "r1.cfg", "ok"), ("", "r2-big.cfg", "fail"), ("d one", "x-big.cfg", "fail"),
           ("d one", "y.cfg", "ok"), ("d two", "w.cfg", "ok")],
    "S4": [("", "r.cfg", "ok"), ("a/b/c", "big-one.cfg", "fail"), ("a/b/c", "sib.cfg", "ok"),
           ("a", "other.cfg", "ok"), ("q", "t.cfg", "ok")],
}
ISO_OFFSETS = {"offset0": 0, "first-buffer": 4000, "at-8191": 8191, "at-8192": 8192, "at-8193": 8193,
               "second-buffer": 12000, "beyond-20000": 20500, "last-byte": -1}


def iso_small(j):
    return ("hostname iso-%d\nusername user%d password 0 Pw%dAlpha\nsnmp-server community Comm%dBeta RO\n"
            " neighbor 10.9.%d.1 password Shared0Gamma\nend %d\n" % (j, j, j, j, j, j)).encode()


def iso_big(j, offset, size=None):
    """20-40 KB of valid configuration, distinct secrets in the first lines (and every 40 filler
    blocks), with byte `offset` replaced by 0xff (never valid in UTF-8)."""
    size = size or (22000 + 6000 * (j % 3))
    parts = ["hostname big-%d\nusername big%da password 0 Big%dSecretA\nusername big%db password 0 Big%dSecretB\n"
             "snmp-server community Big%dCommC RO\n neighbor 10.8.%d.1 password Big%dSecretD\n" % ((j,) * 8)]
    n, total = 0, len(parts[0])
    while total < size:
        n += 1
        p = "interface GigabitEthernet0/%d\n description plain filler line number %d of the big file\n no shutdown\n" % (n, n)
        if n % 40 == 0:
            p += "username fill%dx%d password 0 Fill%dPw%d\n" % (j, n, j, n)
        parts.append(p)
        total += len(p)
    b = bytearray("".join(parts).encode())
    b[offset if 0 <= offset < len(b) else len(b) - 1] = 0xFF
    return bytes(b)


def _walk_order(indir):
    """The order in which a top-down os.walk lists the non-hidden files (coverage accounting and
    the order-stability guard only; no verdict depends on it)."""
    out = []
    for dp, dns, fns in os.walk(indir):
        out += [os.path.relpath(os.path.join(dp, f), indir) for f in fns if not f.startswith(".")]
    return out


def run_iso(job, fsroot, repo):
    shape = ISO_SHAPES[job["shape"]]
    offset = ISO_OFFSETS[job["offset_class"]]
    root = os.path.join(fsroot, "w%d" % os.getpid())
    rels = [os.path.normpath(os.path.join(d, n)) for d, n, _ in shape]
    failing = {r for r, (_, _, role) in zip(rels, shape) if role == "fail"}
    data = {r: (iso_big(j, offset) if r in failing else iso_small(j)) for j, r in enumerate(rels)}
    results = []
    for entry in job["entries"]:
        runs = {}
        for which in ("absent", "with"):
            if os.path.exists(root):
                shutil.rmtree(root)
            os.makedirs(os.path.join(root, "in"))
            _write(os.path.join(root, "beside.txt"), b"a bystander next to the input\n")
            for r in rels:                       # same creation order in both runs
                if which == "with" or r not in failing:
                    _write(os.path.join(root, "in", r), data[r])
            order = _walk_order(os.path.join(root, "in"))
            snap0 = snapshot(root)
            texts, raised = run_entry(entry, job["feat"], os.path.join(root, "in"), os.path.join(root, "out"), repo)
            snap1 = snapshot(root)
            shutil.rmtree(root, ignore_errors=True)
            runs[which] = (snap0, snap1, texts, raised, order)
        snap0, snap1, texts, raised, order = runs["with"]
        a0, a1, atexts, araised, aorder = runs["absent"]
        stable = [r for r in order if r not in failing] == aorder
        report_texts = list(texts) + ([raised] if raised else [])
        rep = {r: any(os.path.basename(r) in t for t in report_texts) for r in failing}
        allfailed = all(rep.values())
        special = set()
        evs = {"with": [{"ev": "start"}], "absent": [{"ev": "start"}]}
        for r in rels:
            ip, sp = os.path.join("in", r), os.path.join("out", r)
            special.update((ip, sp))
            out_abs = a1.get(sp, "ABSENT")
            if r not in failing:     # the run without the failing files is a run of its own
                evs["absent"].append({"ev": "iso", "id": r, "fault": "none", "in0": a0.get(ip, "ABSENT"), "in1": a1.get(ip, "ABSENT"),
                                      "pre": a0.get(sp, "ABSENT"), "out": out_abs, "absent": out_abs, "allfailed": True,
                                      "ifproc": "NA", "reported": False})
            evs["with"].append({"ev": "iso", "id": r, "fault": "decode" if r in failing else "none",
                                "in0": snap0.get(ip, "ABSENT"), "in1": snap1.get(ip, "ABSENT"),
                                "pre": snap0.get(sp, "ABSENT"), "out": snap1.get(sp, "ABSENT"), "absent": out_abs,
                                "allfailed": allfailed, "ifproc": digest(data[r]), "reported": rep.get(r, False)})
        for which, (s0, s1), rz in (("with", (snap0, snap1), raised), ("absent", (a0, a1), araised)):
            o0 = sorted((p, v) for p, v in s0.items() if v != "DIR" and p not in special)
            o1 = sorted((p, v) for p, v in s1.items() if v != "DIR" and p not in special)
            evs[which].append({"ev": "end", "others0": "O:" + hashlib.sha1(json.dumps(o0).encode()).hexdigest(),
                               "others1": "O:" + hashlib.sha1(json.dumps(o1).encode()).hexdigest(),
                               "raised": bool(rz), "mayraise": False})
        firstfail = min(order.index(r) for r in failing)
        lastfail = max(order.index(r) for r in failing)
        pos = {r: ("before" if order.index(r) < firstfail else "after" if order.index(r) > lastfail else "between")
               for r in rels if r not in failing}
        changed = sum(1 for r in rels if r not in failing and
                      snap1.get(os.path.join("out", r), "ABSENT") not in ("ABSENT", digest(data[r])))
        results.append({"entry": entry, "stable_order": stable, "events": evs, "position": pos, "order": order,
                        "info": {"raised": raised, "reports": [t[:160] for t in report_texts[:3]], "allfailed": allfailed,
                                 "files_rewritten": changed,
                                 "bad_byte_offsets": {r: data[r].index(b"\xff") for r in failing},
                                 "sizes": {r: len(data[r]) for r in failing}}})
    return {"kind": "iso", "gid": job["gid"], "results": results}


# ---------------------------------------------------------------------------
# relative input / output paths whose text re-occurs inside the tree
# ---------------------------------------------------------------------------
REL_TREES = {
    # input directory (relative to the sandbox = cwd of the call), files below it, bystanders next to it
    "T-in": {"indir": "in", "files": ["main/r1.cfg", "linux in/r2.cfg", "r3 in.cfg", "main/in/r4.cfg", "plain/r5.cfg", "in/in/r6.cfg"],
             "beside": ["inner/keep.cfg"]},
    "T-configs": {"indir": "configs", "files": ["r1.cfg", "old_configs/r2.cfg", "site/configs/r4.cfg", "configs/r6.cfg",
                                                "configs.bak/r7.cfg", "site/r8 configs.cfg"],
                  "beside": ["configs-old/keep.cfg"]},
    "T-prefix": {"indir": "cfg", "files": ["a.cfg", "cfg-old/b.cfg", "x/cfg/c.cfg"],
                 "beside": ["cfg-old/keep.cfg", "cfg2/keep2.cfg"]},          # input name is a prefix of sibling directories
    "T-letter": {"indir": "a", "files": ["data/a1.cfg", "banana/pa.cfg", "b/c.cfg"], "beside": ["aa/keep.cfg"]},
    "T-nested": {"indir": "work/in", "files": ["r.cfg", "in/s.cfg", "work/in/t.cfg", "rework/inner/u.cfg"],
                 "beside": ["work/in2/keep.cfg", "work/keep.cfg"]},
    "T-dots": {"indir": "in.d", "files": ["in.d/v.cfg", "xin.dx/w.cfg", "z.cfg"], "beside": ["in.d.bak/keep.cfg"]},
}
REL_FORMS = {"plain": "%s", "dot-slash": "./%s", "trailing-slash": "%s/", "dotdot": "%s/../%s", "absolute": None}
REL_OUT = {"plain": "out", "dot-slash": "./out", "trailing-slash": "out/", "dotdot": "out/sub/..", "absolute": None}


def run_rel(job, fsroot, repo):
    """anonymize_files / main called with RELATIVE paths (cwd = sandbox) on a tree whose directory and
    file names contain the text of the input path.  Judged with the ordinary per-file and end clauses."""
    t = REL_TREES[job["tree"]]
    root = os.path.join(fsroot, "w%d" % os.getpid())
    form = job["form"]
    base = os.path.basename(t["indir"])
    if form == "absolute":
        inp, outp = os.path.join(root, t["indir"]), os.path.join(root, "out")
    else:
        f = REL_FORMS[form]
        inp = (f % ((t["indir"], base) if f.count("%s") == 2 else (t["indir"],)))
        outp = REL_OUT[form]
    data = {r: ok_bytes(3 + j, ["lf", "noeol", "nonascii"][j % 3]) for j, r in enumerate(t["files"])}
    results = []
    for entry in job["entries"]:
        if os.path.exists(root):
            shutil.rmtree(root)
        os.makedirs(root)
        for r in t["files"]:
            _write(os.path.join(root, t["indir"], r), data[r])
        for r in t["beside"]:
            _write(os.path.join(root, r), b"bystander " + r.encode() + b"\n")
        if form == "dotdot":
            os.makedirs(os.path.join(root, "out", "sub"))       # so that out/sub/.. resolves
        snap0 = snapshot(root)
        cwd = os.getcwd()
        os.chdir(root)
        try:
            texts, raised = run_entry(entry, job["feat"], inp, outp, repo)
        finally:
            os.chdir(cwd)
        snap1 = snapshot(root)
        shutil.rmtree(root, ignore_errors=True)
        events = [{"ev": "start"}]
        special = set()
        for r in t["files"]:
            ip, sp = os.path.normpath(os.path.join(t["indir"], r)), os.path.normpath(os.path.join("out", r))
            special.update((ip, sp))
            ref = digest(stream_ref(data[r], job["feat"]))
            out = snap1.get(sp, "ABSENT")
            events.append({"ev": "file", "id": r, "hidden": False, "indot": False, "fault": "none",
                           "in0": snap0.get(ip, "ABSENT"), "in1": snap1.get(ip, "ABSENT"), "pre": snap0.get(sp, "ABSENT"),
                           "out": out, "ref": ref, "refnl": ref, "ifproc": ref, "base": out, "reported": False, "tol": False})
        o0 = sorted((p, v) for p, v in snap0.items() if v != "DIR" and p not in special)
        o1 = sorted((p, v) for p, v in snap1.items() if v != "DIR" and p not in special)
        events.append({"ev": "end", "others0": "O:" + hashlib.sha1(json.dumps(o0).encode()).hexdigest(),
                       "others1": "O:" + hashlib.sha1(json.dumps(o1).encode()).hexdigest(),
                       "raised": bool(raised), "mayraise": False})
        d0, d1 = dict(o0), dict(o1)
        results.append({"entry": entry, "events": events,
                        "info": {"input_arg": inp, "output_arg": outp, "raised": raised, "reports": [x[:160] for x in texts[:3]],
                                 "others_changed": sorted(p for p in set(d0) | set(d1) if d0.get(p) != d1.get(p))[:8]}})
    return {"kind": "rel", "gid": job["gid"], "results": results}


# ---------------------------------------------------------------------------
# output sub-directories whose name is taken by a regular file (hand-built trees
# with several sibling sub-directories; the generated scenarios have only one)
# ---------------------------------------------------------------------------
BLOCK_TREES = {
    # files below in/, and the paths below out/ that hold a regular FILE before the run
    "B-middle": {"files": ["r.cfg", "alpha/a1.cfg", "alpha/a2.cfg", "beta/b1.cfg", "gamma/g1.cfg"], "blocked": ["beta"]},
    "B-first": {"files": ["r.cfg", "alpha/a1.cfg", "beta/b1.cfg", "beta/b2.cfg", "gamma/g1.cfg"], "blocked": ["alpha"]},
    "B-last": {"files": ["alpha/a1.cfg", "beta/b1.cfg", "zeta/z1.cfg", "zeta/z2.cfg"], "blocked": ["zeta"]},
    "B-two": {"files": ["r.cfg", "alpha/a1.cfg", "beta/b1.cfg", "gamma/g1.cfg", "delta/d1.cfg"], "blocked": ["alpha", "gamma"]},
    "B-deeper": {"files": ["r.cfg", "alpha/a1.cfg", "alpha/x/ax.cfg", "alpha/x/y/axy.cfg", "beta/b1.cfg"], "blocked": ["alpha/x"]},
    "B-ancestor": {"files": ["alpha/a1.cfg", "alpha/x/y/z.cfg", "beta/b1.cfg", "beta/sub/b2.cfg"], "blocked": ["alpha"]},
    "B-only-subdirs": {"files": ["one/o1.cfg", "two/t1.cfg", "three/h1.cfg"], "blocked": ["one", "two"]},
}


def run_blocked(job, fsroot, repo):
    t = BLOCK_TREES[job["tree"]]
    root = os.path.join(fsroot, "w%d" % os.getpid())
    data = {r: ok_bytes(5 + j, ["lf", "noeol", "nonascii"][j % 3]) for j, r in enumerate(t["files"])}
    isblocked = {r: any((r + "/").startswith(b + "/") for b in t["blocked"]) for r in t["files"]}
    results = []
    for entry in job["entries"]:
        if os.path.exists(root):
            shutil.rmtree(root)
        os.makedirs(root)
        _write(os.path.join(root, "beside.txt"), b"a bystander next to the input\n")
        for r in t["files"]:
            _write(os.path.join(root, "in", r), data[r])
        for b in t["blocked"]:
            _write(os.path.join(root, "out", b), b"a regular file where an output sub-directory is needed\n")
        if job.get("stale"):
            _write(os.path.join(root, "out", "keep.txt"), b"unrelated file in the output directory\n")
        snap0 = snapshot(root)
        texts, raised = run_entry(entry, job["feat"], os.path.join(root, "in"), os.path.join(root, "out"), repo)
        snap1 = snapshot(root)
        shutil.rmtree(root, ignore_errors=True)
        report_texts = list(texts) + ([raised] if raised else [])
        events = [{"ev": "start"}]
        special = set()
        for r in t["files"]:
            ip, sp = os.path.join("in", r), os.path.join("out", r)
            special.update((ip, sp))
            ref = digest(stream_ref(data[r], job["feat"]))
            out = snap1.get(sp, "ABSENT")
            events.append({"ev": "file", "id": r, "hidden": False, "indot": False, "fault": "blocked" if isblocked[r] else "none",
                           "in0": snap0.get(ip, "ABSENT"), "in1": snap1.get(ip, "ABSENT"), "pre": snap0.get(sp, "ABSENT"),
                           "out": out, "ref": ref, "refnl": ref, "ifproc": ref, "base": out,
                           "reported": any(os.path.basename(r) in x for x in report_texts), "tol": False})
        o0 = sorted((p, v) for p, v in snap0.items() if v != "DIR" and p not in special)
        o1 = sorted((p, v) for p, v in snap1.items() if v != "DIR" and p not in special)
        events.append({"ev": "end", "others0": "O:" + hashlib.sha1(json.dumps(o0).encode()).hexdigest(),
                       "others1": "O:" + hashlib.sha1(json.dumps(o1).encode()).hexdigest(),
                       "raised": bool(raised), "mayraise": False})
        d0, d1 = dict(o0), dict(o1)
        results.append({"entry": entry, "events": events,
                        "info": {"raised": raised, "reports": [x[:160] for x in texts[:3]],
                                 "others_changed": sorted(p for p in set(d0) | set(d1) if d0.get(p) != d1.get(p))[:8]}})
    return {"kind": "blk", "gid": job["gid"], "results": results}


# ---------------------------------------------------------------------------
# sibling inputs X and X<suffix> (scratch / backup spellings of another file's name)
# and repeated single-file calls into one output directory
# ---------------------------------------------------------------------------
SIB_JOBS = {
    # suffix, where the pairs live below in/, does the base file X fail to decode
    "tmp-root": (".tmp", "", False), "tmp-sub": (".tmp", "sub dir", False), "tmp-bad": (".tmp", "", True),
    "bak-root": (".bak", "", False), "tilde-sub": ("~", "sub dir/nést", False), "bak-bad": (".bak", "sub dir", True),
    "new-root": (".new", "", False), "orig-bad": (".orig", "", True),
}


def run_siblings(job, fsroot, repo):
    """Input directory holding pairs X / X<suffix>.  The listing order of a directory is the file
    system's business, so candidates are created first and pairs are KEPT such that both orders
    (derived name listed before / after its base) occur; every file must yield its own output."""
    sfx, sub, bad = SIB_JOBS[job["shape"]]
    root = os.path.join(fsroot, "w%d" % os.getpid())
    results = []
    for entry in job["entries"]:
        if os.path.exists(root):
            shutil.rmtree(root)
        d = os.path.join(root, "in", sub)
        os.makedirs(d)
        cands = ["r%d.cfg" % i for i in range(14)]
        for c in cands:
            _write(os.path.join(d, c), b"x")
            _write(os.path.join(d, c + sfx), b"x")
        listing = os.listdir(d)
        first = [c for c in cands if listing.index(c + sfx) < listing.index(c)][:2]    # derived name listed first
        later = [c for c in cands if listing.index(c + sfx) > listing.index(c)][:2]
        keep = first + later
        for c in cands:
            if c not in keep:
                os.remove(os.path.join(d, c))
                os.remove(os.path.join(d, c + sfx))
        files, data, faults = [], {}, {}
        for j, c in enumerate(keep):
            for n, (name, isbase) in enumerate(((c, True), (c + sfx, False))):
                r = os.path.normpath(os.path.join(sub, name))
                files.append(r)
                if bad and isbase:
                    data[r], faults[r] = BAD_BYTES, "decode"
                else:
                    data[r], faults[r] = ok_bytes(7 + 2 * j + n, ["lf", "noeol", "nonascii"][(j + n) % 3]), "none"
                _write(os.path.join(root, "in", r), data[r])
        _write(os.path.join(root, "in", "plain.cfg"), ok_bytes(40, "lf"))
        files.append("plain.cfg")
        data["plain.cfg"], faults["plain.cfg"] = ok_bytes(40, "lf"), "none"
        _write(os.path.join(root, "beside.txt"), b"a bystander next to the input\n")
        snap0 = snapshot(root)
        texts, raised = run_entry(entry, job["feat"], os.path.join(root, "in"), os.path.join(root, "out"), repo)
        snap1 = snapshot(root)
        shutil.rmtree(root, ignore_errors=True)
        events, info = _project_plain(files, data, faults, snap0, snap1, texts, raised, job["feat"], "in", "out")
        info["derived_listed_first"], info["derived_listed_later"] = len(first), len(later)
        results.append({"entry": entry, "events": events, "info": info})
    return {"kind": "sib", "gid": job["gid"], "results": results}


def _project_plain(files, data, faults, snap0, snap1, texts, raised, feat, indir, outdir, slots=None):
    """file events (reference = stream API) + end event for a hand-built tree."""
    report_texts = list(texts) + ([raised] if raised else [])
    events = [{"ev": "start"}]
    special = set()
    for r in files:
        ip = os.path.normpath(os.path.join(indir, r))
        sp = slots[r] if slots else os.path.normpath(os.path.join(outdir, r))
        special.update((ip, sp))
        ref_b = stream_ref(data[r], feat)
        ref = "NA" if ref_b is None else digest(ref_b)
        out = snap1.get(sp, "ABSENT")
        events.append({"ev": "file", "id": r, "hidden": False, "indot": False, "fault": faults[r],
                       "in0": snap0.get(ip, "ABSENT"), "in1": snap1.get(ip, "ABSENT"), "pre": snap0.get(sp, "ABSENT"),
                       "out": out, "ref": ref, "refnl": ref, "ifproc": digest(data[r]) if faults[r] == "decode" else ref, "base": out,
                       # the base name followed by a quote / blank / end: X must not count as named by a report about X.tmp
                       "reported": any(re.search(re.escape(os.path.basename(r)) + r"(?![\w.~])", x) for x in report_texts), "tol": False})
    o0 = sorted((p, v) for p, v in snap0.items() if v != "DIR" and p not in special)
    o1 = sorted((p, v) for p, v in snap1.items() if v != "DIR" and p not in special)
    events.append({"ev": "end", "others0": "O:" + hashlib.sha1(json.dumps(o0).encode()).hexdigest(),
                   "others1": "O:" + hashlib.sha1(json.dumps(o1).encode()).hexdigest(),
                   "raised": bool(raised), "mayraise": False})
    d0, d1 = dict(o0), dict(o1)
    return events, {"raised": raised, "reports": [x[:160] for x in texts[:3]],
                    "others_changed": sorted(p for p in set(d0) | set(d1) if d0.get(p) != d1.get(p))[:8]}


SEQ_JOBS = {
    # (input name, output name) of the first and of the second single-file call into the same directory
    "tmp-then-base": [("dev 1/a.cfg", "res/X.tmp"), ("dev 1/b.cfg", "res/X")],
    "base-then-tmp": [("a.cfg", "res/X"), ("b.cfg", "res/X.tmp")],
    "bak-then-base": [(".running-config", "res/out.cfg.bak"), ("dev 1/.startup config", "res/out.cfg")],
    "three-calls": [("a.cfg", "res dir/r.cfg.tmp"), ("b.cfg", "res dir/r.cfg"), ("c.cfg", "res dir/r.cfg~")],
}


def run_sequence(job, fsroot, repo):
    """Several single-file calls, one after the other, into ONE output directory.  Each call is a run of
    its own: the results of the earlier calls are pre-existing files that must stay byte-identical."""
    calls = SEQ_JOBS[job["shape"]]
    root = os.path.join(fsroot, "w%d" % os.getpid())
    results = []
    for entry in job["entries"]:
        if os.path.exists(root):
            shutil.rmtree(root)
        os.makedirs(root)
        data = {}
        for j, (i, o) in enumerate(calls):
            data[i] = ok_bytes(11 + j, ["lf", "nonascii", "noeol"][j % 3])
            _write(os.path.join(root, "in", i), data[i])
        os.makedirs(os.path.join(root, os.path.dirname(calls[0][1])))
        evs_all, infos = [], []
        for j, (i, o) in enumerate(calls):
            snap0 = snapshot(root)
            texts, raised = run_entry(entry, job["feat"], os.path.join(root, "in", i), os.path.join(root, o), repo)
            snap1 = snapshot(root)
            ev, info = _project_plain([i], data, {i: "none"}, snap0, snap1, texts, raised, job["feat"], "in", "", slots={i: os.path.normpath(o)})
            ev[-1]["mayraise"] = entry == "fafile"
            evs_all.append(ev)
            infos.append(info)
        shutil.rmtree(root, ignore_errors=True)
        results.append({"entry": entry, "events": [e for ev in evs_all for e in ev],
                        "info": {"raised": [x["raised"] for x in infos], "reports": [],
                                 "others_changed": [x["others_changed"] for x in infos]}})
    return {"kind": "seq", "gid": job["gid"], "results": results}


# ---------------------------------------------------------------------------
# output directory INSIDE the input directory (model: FilesNest.tla)
# ---------------------------------------------------------------------------
NEST_TREE = ["a.cfg", "b one.cfg", "sub/c.cfg", "sub/deep/d.cfg", "zeta/e.cfg"]
NEST_JOBS = {
    # output directory relative to in/, state before the run: "absent" | "empty" | "old" (holds a file of an earlier run)
    "direct-preexisting-empty": ("anonymized", "empty"),
    "direct-not-existing": ("anonymized", "absent"),
    "direct-holding-old-result": ("anonymized", "old"),
    "below-subdir-not-existing": ("sub/anon", "absent"),
    "below-subdir-preexisting-empty": ("sub/anon", "empty"),
    "below-deeper-subdir": ("sub/deep/out", "empty"),
    "sorted-first-preexisting": ("0-out", "empty"),
    "with-undecodable-file": ("anonymized", "empty"),
    "outside-sibling-control": ("../out", "empty"),
}


def run_nested(job, fsroot, repo):
    """The input files are the files below in/ when the run starts (a pre-existing output directory
    inside the input tree included); each yields one output below the output directory, nothing else."""
    outrel, state = NEST_JOBS[job["shape"]]
    root = os.path.join(fsroot, "w%d" % os.getpid())
    results = []
    for entry in job["entries"]:
        if os.path.exists(root):
            shutil.rmtree(root)
        os.makedirs(os.path.join(root, "in"))
        files = list(NEST_TREE)
        data = {r: ok_bytes(20 + j, ["lf", "noeol", "nonascii"][j % 3]) for j, r in enumerate(files)}
        faults = {r: "none" for r in files}
        if job["shape"] == "with-undecodable-file":
            data["b one.cfg"], faults["b one.cfg"] = BAD_BYTES, "decode"
        outdir = os.path.normpath(os.path.join("in", outrel))
        if state in ("empty", "old"):
            os.makedirs(os.path.join(root, outdir))
        if state == "old":
            old = os.path.normpath(os.path.join(outrel, "old result.cfg"))      # an input like any other file present at the start
            files.append(old)
            data[old], faults[old] = ok_bytes(31, "lf"), "none"
        for r in files:
            _write(os.path.join(root, "in", r), data[r])
        _write(os.path.join(root, "beside.txt"), b"a bystander next to the input\n")
        snap0 = snapshot(root)
        texts, raised = run_entry(entry, job["feat"], os.path.join(root, "in"), os.path.join(root, outdir), repo)
        snap1 = snapshot(root)
        shutil.rmtree(root, ignore_errors=True)
        events, info = _project_plain(files, data, faults, snap0, snap1, texts, raised, job["feat"], "in", outdir)
        info["output_dir"], info["output_state"] = outdir, state
        info["input_arg"], info["output_arg"] = "<sandbox>/in", "<sandbox>/" + outdir
        results.append({"entry": entry, "events": events, "info": info})
    return {"kind": "nest", "gid": job["gid"], "results": results}


# ---------------------------------------------------------------------------
# entry points agree when only ONE of the two host-bit options is given
# ---------------------------------------------------------------------------
HB_SETS = ["HB:4:-", "HB:8:-", "HB:16:-", "HB:-:8", "HB:-:64", "HB:8:8", "HB:16:64", "HB:-:-"]


def hb_bytes(i):
    return ("hostname hb-%d\ninterface Ethernet%d\n ip address 11.22.%d.77 255.255.255.0\n ip address 101.%d.3.201 255.255.0.0 secondary\n"
            " ipv6 address 2001:db8:%x::a1b2:c3d4/64\n ipv6 address 2a02:26f0:%x:77::9f/48\n neighbor 2001:db8:%x::ffee password Hb%dSecret\n"
            "end %d\n" % (i, i, 30 + i, i, i + 1, i + 2, i + 1, 1, i)).encode()


def run_hostbits(job, fsroot, repo):
    """Same options, same salt, same text through anonymize_files on a directory, anonymize_files on a single
    file and FileAnonymizer.anonymize_file; the reference is the stream API (anonymize_io) with those options."""
    feat = job["feat"]
    root = os.path.join(fsroot, "w%d" % os.getpid())
    results = []
    for entry in job["entries"]:
        if os.path.exists(root):
            shutil.rmtree(root)
        os.makedirs(root)
        if entry in ("dir", "main", "cli"):
            files = ["r1.cfg", "sub dir/r2.cfg"]
            slots = None
            inp, outp = os.path.join(root, "in"), os.path.join(root, "out")
        else:
            files = ["r1.cfg"]
            slots = {"r1.cfg": os.path.join("out", "named result.cfg")}
            os.makedirs(os.path.join(root, "out"))
            inp, outp = os.path.join(root, "in", "r1.cfg"), os.path.join(root, slots["r1.cfg"])
        data = {r: (hb_bytes(3 + j) if feat.startswith("HB:") else ok_bytes(3 + j, ["lf", "nonascii"][j % 2])) for j, r in enumerate(files)}
        for r in files:
            _write(os.path.join(root, "in", r), data[r])
        snap0 = snapshot(root)
        texts, raised = run_entry(entry, feat, inp, outp, repo)
        snap1 = snapshot(root)
        shutil.rmtree(root, ignore_errors=True)
        events, info = _project_plain(files, data, {r: "none" for r in files}, snap0, snap1, texts, raised, feat, "in", "out", slots=slots)
        events[-1]["mayraise"] = entry == "fafile"
        info["options"] = api_kwargs(feat)
        info["address_lines_changed"] = stream_ref(data[files[0]], feat) != data[files[0]]
        results.append({"entry": entry, "events": events, "info": info})
    return {"kind": "hb", "gid": job["gid"], "results": results}
