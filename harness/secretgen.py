"""Concretization of abstract secret-bearing lines and projection of the outputs.

Independent of netconan: own type-7 and $9$ codecs (the latter transcribed
from spec/Juniper.tla), own format classifier written from the property text.
"""
import re
import string

# ---------------------------------------------------------------------------
# $9$ codec (from Juniper.tla)
# ---------------------------------------------------------------------------
ALPHA = "QzF3n6/9CAtpu0O" "B1IREhcSyrleKvMW8LXx" "7N-dVbwsY2g4oaJZGUDj" "iHkq.mPf5T"
IDX = {c: i for i, c in enumerate(ALPHA)}
WEIGHTS = [[1, 4, 32], [1, 16, 32], [1, 8, 32], [1, 64], [1, 32], [1, 4, 16, 128], [1, 32, 64]]


def j9_extra(i):
    return 3 if i < 15 else 2 if i < 35 else 1 if i < 55 else 0


def j9_encode(plain, salt_char, filler="abc"):
    s = IDX[salt_char]
    out = [s] + [IDX[ALPHA[(7 * k + 3) % 65]] for k in range(j9_extra(s))]
    prev = s
    for k, ch in enumerate(plain):
        c = ord(ch)
        row = WEIGHTS[k % 7]
        digits = []
        for w in reversed(row):
            digits.insert(0, c // w)
            c %= w
        for g in digits:
            prev = (prev + g + 1) % 65
            out.append(prev)
    return "$9$" + "".join(ALPHA[i] for i in out)


def j9_decode(text):
    """Returns plaintext or None when the string is not a well-formed $9$ string."""
    if not text.startswith("$9$"):
        return None
    body = text[3:]
    if len(body) < 4 or any(c not in IDX for c in body):
        return None
    b = [IDX[c] for c in body]
    i = 1 + j9_extra(b[0])
    prev = b[0]
    out = []
    k = 0
    while i < len(b):
        row = WEIGHTS[k % 7]
        if i + len(row) > len(b):
            return None
        tot = 0
        for w in row:
            g = (b[i] - prev) % 65 - 1
            tot += g * w
            prev = b[i]
            i += 1
        out.append(chr(tot % 256))
        k += 1
    return "".join(out)


# ---------------------------------------------------------------------------
# Cisco type 7
# ---------------------------------------------------------------------------
T7KEY = "dsfd;kfoA,.iyewrkldJKDHSUBsgvca69834ncxv9873254k;fg87"


def t7_encode(plain, salt):
    out = "%02d" % salt
    for i, ch in enumerate(plain):
        out += "%02X" % (ord(ch) ^ ord(T7KEY[(salt + i) % len(T7KEY)]))
    return out


def t7_decode(text):
    if not re.fullmatch(r"[01][0-9]([0-9A-Fa-f]{2})+", text):
        return None
    salt = int(text[:2])
    if salt > 15:
        return None
    out = ""
    for i in range(2, len(text), 2):
        out += chr(int(text[i:i + 2], 16) ^ ord(T7KEY[(salt + (i - 2) // 2) % len(T7KEY)]))
    return out


# ---------------------------------------------------------------------------
# format classes (written from the property text)
# ---------------------------------------------------------------------------
H64 = "./0123456789ABCDEFGHIJKLMNOPQRSTUVWXYZabcdefghijklmnopqrstuvwxyz"


def classify(val):
    """(class, md5 salt length) of a replacement token."""
    if val.startswith("$9$") and j9_decode(val) is not None:
        return "juniper9", 0
    m = re.fullmatch(r"\$6\$(rounds=\d+\$)?[./0-9A-Za-z]{1,16}\$[./0-9A-Za-z]{86}", val)
    if m:
        return "sha512", 0
    m = re.fullmatch(r"\$1\$([./0-9A-Za-z]{0,8})\$[./0-9A-Za-z]{22}", val)
    if m:
        return "md5", len(m.group(1))
    if re.fullmatch(r"[0-9]+", val):
        return "numeric", 0
    if t7_decode(val) is not None:
        return "type7", 0
    if re.fullmatch(r"[0-9a-fA-F]+", val):
        return "hex", 0
    return "text", 0


TEXT_CHARS = string.ascii_letters + string.digits + "_!@#%^&*+=.-~?<>|/"


# further very short text values, set by a check for its own workloads (C07: a back-tick is an ordinary character of a
# secret, at its start, at its end or at both - it is not enclosing text)
EXTRA_SHORT = []


def gen_secret(r, cls, slen=4, exact_len=None, avoid=()):
    """A secret value of the given format class that belongs to no other class."""
    for _ in range(200):
        if cls == "text":
            if exact_len is None and r.random() < 0.08:
                # very short values, also ones that begin like a hash marker: "$x", "$1", "$6"
                v = r.choice(["$x", "$1", "$6", "$9", "$Z", "x$", "$1x", "Zq", "$$k"] + EXTRA_SHORT)
                if v in avoid:
                    continue
                return v
            n = exact_len or r.randint(6, 14)
            v = "".join(r.choice(TEXT_CHARS) for _ in range(n - 2)) + r.choice("GHJKMNPQRSTVWXYZ") + r.choice("ghjkmnpqrstvwxyz")
            v = r.choice(string.ascii_letters) + v[1:]
        elif cls == "numeric":
            n = exact_len or r.randint(5, 12)
            v = r.choice("23456789") + "".join(r.choice(string.digits) for _ in range(n - 1))
        elif cls == "hex":
            n = exact_len or r.randint(5, 16)
            v = r.choice("abcdefABCDEF23456789"[:12]) + "".join(r.choice("0123456789abcdefABCDEF") for _ in range(n - 2)) + r.choice("abcdef")
        elif cls == "type7":
            v = t7_encode("".join(r.choice(string.ascii_letters) for _ in range(r.randint(4, 10))), r.randint(0, 15))
            if v.isdigit():
                continue
        elif cls == "md5":
            v = "$1$" + "".join(r.choice(H64) for _ in range(slen)) + "$" + "".join(r.choice(H64) for _ in range(22))
        elif cls == "sha512":
            # salt field of any legal length (1-16), sometimes with an explicit rounds= field
            rounds = r.choice(["", "", "", "rounds=%d$" % r.choice([5000, 10000, 656000, 99999999])])
            v = "$6$" + rounds + "".join(r.choice(H64) for _ in range(r.choice([16, 16, 8, 1, 12, 15]))) + "$" + "".join(r.choice(H64) for _ in range(86))
        elif cls == "juniper9bad":
            # looks like $9$ but does not decrypt: truncated last group, foreign character, or too short
            good = j9_encode("".join(r.choice(string.ascii_letters) for _ in range(r.randint(3, 8))), r.choice(ALPHA))
            v = r.choice([good[:-1], good[:8] + "_" + good[9:], "$9$" + "".join(r.choice(ALPHA) for _ in range(r.randint(1, 3)))])
            if j9_decode(v) is not None or v in avoid:
                continue
            return v
        elif cls == "juniper9":
            v = j9_encode("".join(r.choice(string.ascii_letters + string.digits) for _ in range(r.randint(3, 10))), r.choice(ALPHA))
        else:
            raise ValueError(cls)
        if v in avoid or v.lower() in avoid:
            continue
        c, sl = classify(v)
        if c != cls or (cls == "md5" and sl != slen):
            continue
        return v
    raise RuntimeError("could not generate a %s secret" % cls)


WRAP = {"bare": ("", ""), "dq": ('"', '"'), "sq": ("'", "'"), "brace": ("{", "}"), "bracket": ("[", "]"),
        "semi": ("", ";"), "dqsemi": ('"', '";'), "comma": ("", ",")}
LEAD = {"": "", " ": " ", "    ": "    ", "tab": "\t"}


def fill(lit, r):
    """Placeholders of literals: not secrets, equal in paired concretizations."""
    out = []
    for w in lit.split(" "):
        if w == "#N":
            out.append(str(r.randint(1, 255)))
        elif w == "#D":
            out.append(str(r.randint(1, 9)))
        elif w == "#W":
            out.append("name" + "".join(r.choice("ghjkmnpq") for _ in range(4)))
        elif w == "#A":
            out.append("10.%d.%d.%d" % (r.randint(0, 255), r.randint(0, 255), r.randint(1, 254)))
        else:
            out.append(w)
    return " ".join(out)


def concretize(al, r_fill, r_sec, reserved=()):
    """abstract line (from SecretForms.tla) -> dict(line, words, secrets[...]).

    r_fill drives the non-secret fillers (share it between paired variants),
    r_sec the secret values."""
    head, tail = WRAP[al["wrap"]]
    words = []
    secrets = []
    values = {}
    form = al["form"]
    exact = 32 if form in ("A1", "A2") else None
    for t in al["toks"]:
        if "lit" in t:
            if t["lit"]:
                words += fill(t["lit"], r_fill).split(" ")
            continue
        n = t["sec"]
        cls = al["cls"][n - 1]
        if n == 2 and al["eq"] == "same":
            val = values[1]
        elif form == "E4" and cls == "text" and r_sec.random() < 0.5:
            # community strings that BEGIN like a BGP community (digits, n:m, a well-known name) but are not one
            w = "".join(r_sec.choice("ghjkmnpqrstvwxz") for _ in range(5))
            val = r_sec.choice(["%d!%s" % (r_sec.randint(1, 9999), w), "%d#%s" % (r_sec.randint(1, 99), w), "none-%s" % w, "internet-%s" % w,
                                "%d:%d-%s" % (r_sec.randint(1, 65535), r_sec.randint(1, 999), w), "no-export.%s" % w, "local-AS+%s" % w])
        else:
            val = gen_secret(r_sec, cls, al["slen"], exact, avoid=set(reserved) | set(values.values()))
        values[n] = val
        pre = post = ""
        h, tl = head, tail
        if form == "A2":
            h, tl = '"', '",'
        if form == "E5":
            post = ":100"
        secrets.append({"n": n, "value": val, "cls": cls, "slen": al["slen"] if cls == "md5" else 0,
                        "index": len(words), "pre": pre, "post": post, "head": h, "tail": tl})
        words.append(pre + h + val + tl + post)
    if form == "A1":
        # one token: <pre_shared_key>SECRET</pre_shared_key>
        s = secrets[0]
        s["pre"], s["post"], s["index"] = words[0], words[2], 0
        s["head"] = s["tail"] = ""
        words = [words[0] + s["value"] + words[2]]
    line = LEAD[al["lead"]] + " ".join(words)
    return {"line": line, "words": words, "secrets": secrets, "lead": LEAD[al["lead"]]}


SCRUB_NOTICE = "SCRUBBED"


def project(conc, out_line, mode):
    """Secret events (without 'ev'/'key') for one <concretized input, output line> pair."""
    events = []
    in_words = conc["words"]
    out_lead = out_line[: len(out_line) - len(out_line.lstrip())]
    out_words = out_line.split()
    scrub = SCRUB_NOTICE in out_line and len(out_words) != len(in_words)
    slots = {s["index"] for s in conc["secrets"]}      # every secret position is blanked in the context
    for s in conc["secrets"]:
        i = s["index"]
        orig = in_words[i]
        ev = {"mode": mode, "cls": s["cls"], "slen": s["slen"], "orig": orig, "scrubbed": False}
        ctxin = conc["lead"] + "\x1f".join(w if j not in slots else "\x00" for j, w in enumerate(in_words))
        if scrub or len(out_words) != len(in_words):
            # the line was restructured: scrubbed (secret gone) or something else
            gone = s["value"] not in out_line
            # scrubbed = the secret is gone and the line was restructured, for a form whose mode is scrub
            # (any wording of the notice), or with today's notice for any form
            ev.update({"scrubbed": bool(gone and (scrub or mode == "scrub")), "repl": orig if not gone else "<restructured>", "pseudo": "<none>", "ocls": "none", "oslen": 0,
                       "ctxin": ctxin, "ctxout": "<restructured:%d words>" % len(out_words)})
            events.append(ev)
            continue
        tok = out_words[i]
        pre, post = s["pre"] + s["head"], s["tail"] + s["post"]
        if tok.startswith(pre) and tok.endswith(post) and len(tok) >= len(pre) + len(post):
            mid = tok[len(pre): len(tok) - len(post)] if post else tok[len(pre):]
            ctxout = out_lead + "\x1f".join(w if j not in slots else "\x00" for j, w in enumerate(out_words))
        else:
            mid = tok
            ctxout = "<enclosing text changed: %s>" % tok
        ocls, oslen = classify(mid)
        pseudo = j9_decode(mid) if ocls == "juniper9" else mid
        ev.update({"repl": tok, "pseudo": pseudo, "ocls": ocls, "oslen": oslen, "ctxin": ctxin, "ctxout": ctxout})
        events.append(ev)
    return events


def secret_key(value):
    d = j9_decode(value) if value.startswith("$9$") else None
    return d if d is not None else value
