"""Thin, careful wrapper around TLC / SANY.

Everything TLC needs is copied into a per-run scratch directory outside /verif
and /repo (so concurrent checks do not share `states/` or metadirs) and the
scratch directory is removed at exit.
"""
import atexit
import os
import re
import shutil
import subprocess
import tempfile
import time

VERIF = os.path.dirname(os.path.dirname(os.path.abspath(__file__)))
SPEC = os.path.join(VERIF, "spec")
CP = "/opt/veriftools/tla/tla2tools.jar:/opt/veriftools/tla/CommunityModules-deps.jar"

_scratch = None


class MachineryError(Exception):
    """TLC / harness failure that is not a verdict (exit code 2)."""


def scratch():
    global _scratch
    if _scratch is None:
        base = os.environ.get("VERIF_SCRATCH_BASE") or tempfile.gettempdir()
        _scratch = tempfile.mkdtemp(prefix="nvf_", dir=base)
        atexit.register(lambda: shutil.rmtree(_scratch, ignore_errors=True))
    return _scratch


def subdir(name):
    d = os.path.join(scratch(), name)
    os.makedirs(d, exist_ok=True)
    return d


_counter = [0]


def _fresh(prefix):
    _counter[0] += 1
    return subdir("%s_%d_%d" % (prefix, os.getpid(), _counter[0]))


def java_cmd(heap="4g", stack="64m", gc_threads=4):
    return [
        "java",
        "-Xms512m",
        "-Xmx" + heap,
        "-Xss" + stack,
        "-XX:+UseParallelGC",
        "-XX:ParallelGCThreads=%d" % gc_threads,
        "-cp",
        CP,
    ]


class TlcResult:
    def __init__(self, rc, out, wall):
        self.rc = rc
        self.out = out
        self.wall = wall
        m = re.search(r"(\d+) states generated, (\d+) distinct states found", out)
        self.generated = int(m.group(1)) if m else 0
        self.distinct = int(m.group(2)) if m else 0
        m = re.search(r"depth of the complete state graph search is (\d+)", out)
        self.depth = int(m.group(1)) if m else 0
        self.ok = rc == 0 and "No error has been found" in out
        self.invariant_violated = None
        m = re.search(r"Invariant (\S+) is violated", out)
        if m:
            self.invariant_violated = m.group(1)
        m = re.search(r"Action property (\S+) is violated", out)
        if m:
            self.invariant_violated = m.group(1)
        if "Temporal properties were violated" in out:
            self.invariant_violated = self.invariant_violated or "temporal"
        self.coverage = {}

    def printed(self, tag):
        """Values printed by PrintT(<<tag, ...>>) as raw text lines."""
        res = []
        for line in self.out.splitlines():
            line = line.strip()
            if line.startswith('<<"%s"' % tag):
                res.append(line)
        return res

    def summary(self):
        return {
            "generated": self.generated,
            "distinct": self.distinct,
            "depth": self.depth,
            "wall_s": round(self.wall, 2),
        }


def stage(files, extra=None):
    """Copy the named spec files (and generated extras) into a fresh directory."""
    d = _fresh("spec")
    for f in files:
        shutil.copy(os.path.join(SPEC, f), d)
    for name, text in (extra or {}).items():
        with open(os.path.join(d, name), "w") as fh:
            fh.write(text)
    return d


def all_spec_files():
    return [f for f in os.listdir(SPEC) if f.endswith(".tla") or f.endswith(".cfg")]


def run(module, cfg, workers=8, simulate=None, depth=None, env=None, extra=None,
        timeout=1800, dump=None, coverage=False, heap="4g", deadlock=False,
        seed=None, dfid=None, stagedir=None, env_retry=False):
    """Run TLC on spec/<module>.tla with spec/<cfg> (or generated text in extra)."""
    d = stagedir or stage(all_spec_files(), extra)
    meta = _fresh("meta")
    cmd = java_cmd(heap=heap) + ["tlc2.TLC", "-metadir", meta, "-noGenerateSpecTE",
                                  "-workers", str(workers), "-config", cfg]
    if not deadlock:
        pass  # deadlock checking is controlled by CHECK_DEADLOCK in the cfg
    if simulate:
        cmd += ["-simulate", simulate]
    if depth:
        cmd += ["-depth", str(depth)]
    if seed is not None:
        cmd += ["-seed", str(seed)]
    if dump:
        cmd += ["-dump", dump[0], dump[1]]
    if coverage:
        cmd += ["-coverage", "1"]
    cmd.append(module + ".tla")
    e = dict(os.environ)
    e.pop("JAVA_TOOL_OPTIONS", None)
    if env:
        e.update(env)
    t0 = time.time()
    try:
        p = subprocess.run(cmd, cwd=d, env=e, stdout=subprocess.PIPE,
                           stderr=subprocess.STDOUT, timeout=timeout, text=True,
                           errors="replace")
        rc, out = p.returncode, p.stdout
    except subprocess.TimeoutExpired as ex:
        rc, out = 124, (ex.stdout or b"").decode("utf-8", "replace") if isinstance(ex.stdout, bytes) else (ex.stdout or "")
        out += "\nTIMEOUT"
    res = TlcResult(rc, out, time.time() - t0)
    if simulate and rc == 0 and "Error:" not in out:
        res.ok = True                      # simulation mode prints no "No error has been found"
    if not res.ok and rc != 124 and "Error:" not in out and "violated" not in out and not env_retry:
        # the JVM did not get as far as a verdict (could not start / was killed under memory pressure): one retry
        shutil.rmtree(meta, ignore_errors=True)
        return run(module, cfg, workers=workers, simulate=simulate, depth=depth, env=env, extra=None, timeout=timeout, dump=dump,
                   coverage=coverage, heap=heap, deadlock=deadlock, seed=seed, dfid=dfid, stagedir=d, env_retry=True)
    res.dir = d
    shutil.rmtree(meta, ignore_errors=True)
    return res


def require_ok(res, what):
    """Model checking of our own specs must succeed; otherwise machinery failure."""
    if not res.ok:
        tail = "\n".join(res.out.splitlines()[-40:])
        raise MachineryError("TLC failed on %s (rc=%s):\n%s" % (what, res.rc, tail))
    return res


def sany(path):
    cmd = ["java", "-cp", CP, "tla2sany.SANY", os.path.basename(path)]
    p = subprocess.run(cmd, cwd=os.path.dirname(path), stdout=subprocess.PIPE,
                       stderr=subprocess.STDOUT, text=True)
    ok = p.returncode == 0 and "Semantic errors" not in p.stdout and "***Parse Error***" not in p.stdout and "Fatal" not in p.stdout
    return ok, p.stdout
