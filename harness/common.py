"""Shared plumbing for all checks: repo import, seeds, evidence, findings, trace batches."""
import concurrent.futures
import hashlib
import json
import os
import random
import re
import sys
import time

HERE = os.path.dirname(os.path.abspath(__file__))
VERIF = os.path.dirname(HERE)
REPO = os.path.abspath(os.environ.get("NETCONAN_REPO", "/repo"))
GUARD = "NETCONAN_VERIF"

# the working tree under test always wins over any installed copy
if REPO not in sys.path:
    sys.path.insert(0, REPO)
os.environ[GUARD] = "1"

import logging  # noqa: E402

logging.getLogger().addHandler(logging.NullHandler())   # netconan logs through the root logger; keep check output clean

import tlc  # noqa: E402
from tlc import MachineryError  # noqa: E402,F401

SEED = int(os.environ.get("VERIF_SEED", "0") or 0)
NPROC = min(16, os.cpu_count() or 4)


def rng(*salt):
    h = hashlib.sha256(("%d|" % SEED + "|".join(map(str, salt))).encode()).digest()
    return random.Random(int.from_bytes(h[:8], "big"))


class Check:
    """Book-keeping of one property check run."""

    def __init__(self, pid, tier, level="model_checking"):
        self.pid = pid
        self.tier = tier
        self.level = level
        self.t0 = time.time()
        self.states = 0
        self.transitions = 0
        self.models = []
        self.traces = 0
        self.events = 0
        self.evaluations = 0
        self.nontrivial = set()
        self.samples = []
        self.violations = []      # dicts: key, what, replay
        self.known_hits = []
        self.assumptions = []
        self.notes = {}
        self.drift = []
        self.exhaustive = None
        self.rule = ""

    # ---- model checking ---------------------------------------------------
    def model(self, module, cfg, what, **kw):
        r = tlc.require_ok(tlc.run(module, cfg, **kw), "%s/%s" % (module, cfg))
        self.states += r.distinct
        self.transitions += r.generated
        self.models.append({"module": module, "cfg": cfg, "what": what, **r.summary()})
        return r

    def sample(self, s, limit=6):
        if len(self.samples) < limit:
            self.samples.append(s)

    def count(self, key=None, n=1):
        self.evaluations += n
        if key is not None:
            self.nontrivial.add(key)

    # ---- verdicts ---------------------------------------------------------
    def violation(self, key, what, replay_obj):
        """Register a violation; findings listed in known_findings.json are not alarms."""
        kf = match_known(self.pid, key, what)
        if kf is not None:
            if kf["id"] not in [k["id"] for k in self.known_hits]:
                self.known_hits.append(kf)
            return False
        # one replay file per distinct key, at most 40 distinct keys written out
        if any(v["key"] == key for v in self.violations) or len({v["key"] for v in self.violations}) >= 400:
            self.violations.append({"key": key, "what": what, "replay": None})
            return True
        os.makedirs(os.path.join(VERIF, "replays"), exist_ok=True)
        h = hashlib.sha1(json.dumps([key, what], sort_keys=True, default=str).encode()).hexdigest()[:10]
        path = os.path.join(VERIF, "replays", "%s_%s.json" % (self.pid, h))
        with open(path, "w") as fh:
            json.dump({"property": self.pid, "key": key, "what": what, "seed": SEED,
                       "tier": self.tier, "case": replay_obj}, fh, indent=1, default=str)
        self.violations.append({"key": key, "what": what, "replay": path})
        return True

    def finish(self):
        global LAST_CHECK
        LAST_CHECK = self
        wall = time.time() - self.t0
        cov = {
            "states": self.states,
            "transitions": self.transitions,
            "traces_validated_against_impl": self.traces,
            "events_validated": self.events,
            "evaluations": self.evaluations,
            "distinct_nontrivial": len(self.nontrivial),
            "rule": self.rule,
            "samples": self.samples or ["(none)"],
            "models": self.models,
            "model_drift": self.drift,
            "known_findings_hit": [k["id"] for k in self.known_hits],
        }
        if self.exhaustive is not None:
            cov["exhaustive"] = self.exhaustive
        cov.update(self.notes)
        ev = {
            "property_id": self.pid,
            "tier": self.tier,
            "seed": SEED,
            "level": self.level,
            "coverage": cov,
            "assumptions": self.assumptions,
            "wall_s": round(wall, 2),
            "violations": len(self.violations),
            "repo": REPO,
        }
        if self.tier in ("quick", "thorough") and not os.environ.get("VERIF_NO_EVIDENCE"):   # replays never overwrite evidence
            os.makedirs(os.path.join(VERIF, "evidence"), exist_ok=True)
            with open(os.path.join(VERIF, "evidence", self.pid + ".json"), "w") as fh:
                json.dump(ev, fh, indent=1, default=str)
        for k in self.known_hits:
            print("KNOWN-FINDING: property=%s %s" % (self.pid, k["what"]))
        seen = set()
        for v in self.violations:
            if v["replay"] and v["replay"] not in seen:
                seen.add(v["replay"])
                print("VIOLATION property=%s replay=%s" % (self.pid, v["replay"]))
                print("  what: %s" % (v["what"],))
        print("%s %s: %d model states, %d traces / %d events validated, %d evaluations, "
              "%d violations, %d known findings, %.1fs" %
              (self.pid, self.tier, self.states, self.traces, self.events,
               self.evaluations, len(self.violations), len(self.known_hits), wall))
        return 1 if self.violations else 0


LAST_CHECK = None

TRACE_MODULES = {
    "C01": "IpTrace", "C02": "IpTrace", "C03": "IpTrace", "C04": "IpTrace", "C05": "IpTrace", "C17": "IpTrace", "C06": "TextTrace",
    "C07": "SecretTrace", "C08": "SecretTrace", "C09": "SecretTrace", "C10": "WordsTrace", "C12": "Pipeline", "C14": "Pipeline", "C15": "Pipeline",
    "C13": "ProcessTrace", "C18": "JuniperTrace",
}


def generic_replay(pid, path, mod):
    """--replay for checks without a dedicated replayer:
    1. the recorded trace (if the replay file holds one) is judged again by TLC, which shows the rejection;
    2. the check is re-run against the current tree with the recorded seed and tier (all case generation is a
       function of the seed), and the replay succeeds in reproducing iff the same violation key appears again.
    Exit 1 = still violated, 0 = no longer violated."""
    global SEED
    d = json.load(open(path))
    print("replaying %s: key=%s" % (path, d.get("key")))
    print("  recorded: %s" % (str(d.get("what"))[:500],))
    case = d.get("case") or {}
    tr = case.get("trace")
    tm = TRACE_MODULES.get(pid)
    if isinstance(tr, list) and tm and tr and isinstance(tr[0], dict):
        label = case.get("label", "")
        if pid in ("C02", "C03", "C05") and label in ("text", "files"):
            tm = "TextTrace"
        try:
            validate_traces(tm, tm + ".cfg", [tr])
            rej = all_rejections.get(0, [])
            print("  TLC (%s) on the recorded trace: %s" % (tm, ", ".join("event %d rejected by %s" % r for r in rej) or "accepted"))
        except MachineryError as e:
            print("  recorded trace could not be re-validated: %s" % str(e)[:300])
    os.environ["VERIF_SEED"] = str(d.get("seed", 0))
    os.environ["VERIF_NO_EVIDENCE"] = "1"
    SEED = int(d.get("seed", 0))
    tier = d.get("tier", "quick")
    keep = match_known
    rc = mod.run(pid, tier)
    ck = LAST_CHECK
    again = [v for v in (ck.violations if ck else []) if v["key"] == d.get("key")]
    print("replay: the violation %s on the current tree" % ("REAPPEARS" if again else "does not reappear"))
    return 1 if again else 0


# ---- known findings ---------------------------------------------------------
_known = None


def known_findings():
    global _known
    if _known is None:
        p = os.path.join(VERIF, "known_findings.json")
        _known = json.load(open(p)) if os.path.exists(p) else {"findings": [], "fixed": []}
    return _known


def match_known(pid, key, what):
    """A finding entry matches when its property is pid and its `match` regex
    matches the violation key (keys are built by the checks from the failing
    input class / call site / history, never from run-time randomness)."""
    for f in known_findings().get("findings", []):
        if f.get("property") != pid:
            continue
        if re.search(f["match"], key):
            return f
    return None


# ---- trace batches through TLC ---------------------------------------------
def _run_trace_shard(args):
    module, cfg, path, idx = args
    r = tlc.run(module, cfg, workers=1, env={"TRACE_FILE": path}, heap="3g", timeout=3600)
    fails = []
    done = None
    for line in r.out.splitlines():
        line = line.strip()
        m = re.match(r'<<"FAIL", (\d+), (\d+), "([^"]*)">>', line)
        if m:
            fails.append((int(m.group(1)), int(m.group(2)), m.group(3)))
        m = re.match(r'<<"DONE", (\d+)>>', line)
        if m:
            done = int(m.group(1))
    return idx, r.rc, done, sorted(set(fails)), r.generated, r.out[-3000:], r.wall


all_rejections = {}     # trace index -> [(event index, clause), ...] of the last validate_traces call (modules that do not skip)


def validate_traces(module, cfg, traces, shards=NPROC, max_events_per_shard=4000):
    """traces: list of lists of event dicts (without tid).  Returns
    {trace_index: (event_index_in_trace, clause)} for the rejected ones plus
    the number of TLC states spent.  Raises MachineryError when TLC did not
    consume every event."""
    if not traces:
        return {}, 0
    # distribute traces over shards, keeping each shard below the event budget
    order = sorted(range(len(traces)), key=lambda i: -len(traces[i]))
    total = sum(len(t) for t in traces)
    nshards = max(1, min(len(traces), max(shards, (total + max_events_per_shard - 1) // max_events_per_shard)))
    buckets = [[] for _ in range(nshards)]
    loads = [0] * nshards
    for i in order:
        j = loads.index(min(loads))
        buckets[j].append(i)
        loads[j] += len(traces[i])
    d = tlc.subdir("traces")
    jobs = []
    line_maps = []
    for j, b in enumerate(buckets):
        if not b:
            continue
        path = os.path.join(d, "batch_%d_%d_%d.ndjson" % (os.getpid(), int(time.time() * 1000) % 10**9, j))
        lm = {}
        with open(path, "w") as fh:
            ln = 0
            for ti in sorted(b):
                for k, e in enumerate(traces[ti]):
                    ln += 1
                    ee = dict(e)
                    ee["tid"] = ti + 1
                    lm[ln] = (ti, k)
                    fh.write(json.dumps(ee, separators=(",", ":")) + "\n")
        jobs.append((module, cfg, path, len(line_maps)))
        line_maps.append((lm, ln))
    rejected = {}
    all_rejections.clear()
    states = 0
    with concurrent.futures.ThreadPoolExecutor(max_workers=NPROC) as ex:
        for idx, rc, done, fails, gen, tail, wall in ex.map(_run_trace_shard, jobs):
            lm, ln = line_maps[idx]
            if done != ln:
                # a JVM that could not start or was killed (memory pressure from parallel shards): one serial retry
                idx, rc, done, fails, gen, tail, wall = _run_trace_shard(jobs[idx])
            if done != ln:
                raise MachineryError("trace batch not fully consumed (rc=%s, done=%s of %s):\n%s" % (rc, done, ln, tail))
            states += gen
            for tid, line, clause in fails:
                ti, k = lm[line]
                rejected.setdefault(ti, (k, clause))
                all_rejections.setdefault(ti, []).append((k, clause))
    for j in jobs:
        try:
            os.remove(j[2])
        except OSError:
            pass
    return rejected, states


def main_wrapper(fn):
    """Run a check function, mapping machinery failures to exit code 2."""
    try:
        rc = fn()
    except MachineryError as e:
        print("MACHINERY-FAILURE: %s" % e)
        sys.exit(2)
    sys.exit(rc)
